#!/usr/bin/env python
"""C01 hunt, finding 1.

After any directory has been listed once, the selector of that directory's
cache file (/.cache.pygopherd.dir with the shipped configuration) returns a
pickle that embeds the server's complete ConfigParser object: every section
and option of the configuration file, which lives OUTSIDE the document root
(absolute path of the root and of its parents, pidfile, TLS key location,
setuid user, any private section the administrator keeps in that file, ...).

The property says that nothing outside the document root is revealed and that
the response is byte-identical whatever exists outside the root.  This program
checks exactly that: it serves one fixed document root twice, with two
configuration FILES (stored outside the root) that differ only in options
that have nothing to do with how documents are served, sends the same two
requests, and demands identical bytes and no trace of the outside-only
strings.  It exits 0 when that holds.
"""
import io
import os
import re
import shutil
import sys
import tempfile
import time

WT = os.path.dirname(os.path.dirname(os.path.dirname(os.path.abspath(__file__))))
sys.path.insert(0, WT)
os.chdir(WT)

import warnings

warnings.simplefilter("ignore")

import pygopherd.handlers.base as hbase  # noqa: E402
from pygopherd import initialization, logger, testutil  # noqa: E402
from pygopherd.handlers import HandlerMultiplexer  # noqa: E402

MARKER = "OUTSIDE-ONLY-hunter2"
PRIVATE_DIR = "private-parent-name-4711"


def build_tree():
    base = tempfile.mkdtemp(prefix="c01-1-")
    root = os.path.join(base, PRIVATE_DIR, "root")
    os.makedirs(os.path.join(root, "sub"))
    with open(os.path.join(root, "a.txt"), "w") as fp:
        fp.write("hello\n")
    with open(os.path.join(root, "sub", "b.txt"), "w") as fp:
        fp.write("world\n")
    etc = os.path.join(base, "etc")  # outside the root
    os.makedirs(etc)
    return base, root, etc


def write_config(etc, name, root, extra):
    """A copy of the shipped configuration file, stored outside the root."""
    with open(os.path.join(WT, "conf", "pygopherd.conf")) as fp:
        text = fp.read()
    text = re.sub(r"(?m)^root = .*$", "root = " + root, text)
    text = re.sub(r"(?m)^logmethod = .*$", "logmethod = none", text)
    text = re.sub(r"(?m)^usechroot = .*$", "usechroot = no", text)
    text = re.sub(
        r"(?m)^mimetypes = .*$",
        "mimetypes = " + os.path.join(WT, "conf", "mime.types") + ":/etc/mime.types",
        text,
    )
    text += extra
    path = os.path.join(etc, name)
    with open(path, "w") as fp:
        fp.write(text)
    return path


def serve(configfile, lines):
    """Start from the configuration FILE like the real server does and
    answer the request lines in order, in-process."""
    config = initialization.init_config(configfile)
    logger.init(config)
    initialization.init_mimetypes(config)
    HandlerMultiplexer.handlers = None
    hbase.rootpath = None
    server = None
    for _ in range(100):
        try:
            server = testutil.get_testing_server(config)
            break
        except OSError:  # port 64777 busy: someone else is testing too
            time.sleep(0.3)
    assert server is not None
    answers = []
    for line in lines:
        rfile, wfile = io.BytesIO(line), io.BytesIO()
        got = {}

        class Handler(testutil.MockRequestHandler):
            def finish(self):
                got["data"] = wfile.getvalue()

        handler = Handler(
            testutil.MockRequest(rfile, wfile), ("10.77.77.77", "7777"), server
        )
        handler.handle()
        answers.append(got["data"])
    return answers


def main():
    base, root, etc = build_tree()
    try:
        conf_a = write_config(etc, "a.conf", root, "")
        # Same root, same handlers, same everything that concerns documents;
        # only material that is private to the machine differs.
        conf_b = write_config(
            etc,
            "b.conf",
            root,
            "\n[backend]\ndbpassword = %s\n" % MARKER,
        )
        requests = [
            b"/\r\n",  # an ordinary listing (writes the cache file)
            b"/.cache.pygopherd.dir\r\n",  # plain Gopher
            b"GET /.cache.pygopherd.dir HTTP/1.0\r\n\r\n",  # HTTP
        ]
        cachefile = os.path.join(root, ".cache.pygopherd.dir")

        def run(conf):
            if os.path.exists(cachefile):
                os.unlink(cachefile)
            return serve(conf, requests)

        a1 = run(conf_a)
        a2 = run(conf_a)
        b = run(conf_b)

        problems = []
        if a1 != a2:
            print("note: control runs differ; the differential check is void")
        elif a1 != b:
            for line, x, y in zip(requests, a1, b):
                if x != y:
                    problems.append(
                        "answer to %r differs (%d vs %d bytes) when only the "
                        "configuration file outside the root differs"
                        % (line, len(x), len(y))
                    )
        for label, answers in (("a.conf", a1), ("b.conf", b)):
            for line, data in zip(requests, answers):
                if MARKER.encode() in data:
                    problems.append(
                        "[%s] answer to %r contains the option value %r that "
                        "exists only in the configuration file outside the root"
                        % (label, line, MARKER)
                    )
                if PRIVATE_DIR.encode() in data:
                    problems.append(
                        "[%s] answer to %r contains the name of the root's "
                        "parent directory %r (absolute path of the root: %s)"
                        % (label, line, PRIVATE_DIR, root)
                    )
                if b"/var/run/pygopherd/pygopherd.pid" in data:
                    problems.append(
                        "[%s] answer to %r contains the pidfile location from "
                        "the configuration file" % (label, line)
                    )
        if problems:
            print("C01 VIOLATED: the configuration file (outside the root) is revealed")
            for p in problems:
                print(" -", p)
            sample = b[1]
            i = sample.find(MARKER.encode())
            print("excerpt of the Gopher answer around the private option:")
            print("   ", sample[max(0, i - 60) : i + len(MARKER) + 5])
            return 1
        print("ok: answers do not depend on, or contain, the outside configuration")
        return 0
    finally:
        shutil.rmtree(base, ignore_errors=True)


if __name__ == "__main__":
    sys.exit(main())
