"""C12 demo 1: a FIFO that carries the name of the directory cache file
(.cache.pygopherd.dir) makes the listing of its directory hang for ever.

Run as:  cd /tmp/wt4-C12 && /venv/bin/python HUNT/1/demo.py
Exits 0 if every listing succeeds and contains every other entry.
"""
import io
import os
import shutil
import sys
import tempfile
import threading
import time
import warnings

ROOT = os.path.dirname(os.path.dirname(os.path.dirname(os.path.abspath(__file__))))
sys.path.insert(0, ROOT)
os.chdir(ROOT)
warnings.simplefilter("ignore")

from pygopherd import initialization, logger, testutil  # noqa: E402
from pygopherd.protocols import ProtocolMultiplexer  # noqa: E402
import pygopherd.handlers.HandlerMultiplexer as HM  # noqa: E402
import pygopherd.handlers.base as hbase  # noqa: E402

TIMEOUT = 2.0


class FakeServer:
    server_name = "localhost"
    server_port = 70


class FakeRequestHandler:
    def __init__(self, tls, rfile, wfile):
        self.client_address = ("10.1.1.1", 1234)
        cls = testutil.MockSSLRequest if tls else testutil.MockRequest
        self.request = cls(rfile, wfile)
        self.rfile, self.wfile = rfile, wfile


def make_config(root, handlers=None, cachetime=None):
    config = initialization.init_config("conf/pygopherd.conf")
    config.set("pygopherd", "root", root)
    config.set("logger", "logmethod", "none")
    if handlers:
        config.set("handlers.HandlerMultiplexer", "handlers", handlers)
    if cachetime is not None:
        config.set("handlers.dir.DirHandler", "cachetime", str(cachetime))
    logger.init(config)
    HM.handlers = None
    HM.rootpath = None
    hbase.rootpath = None
    return config


def do_request(config, line, tls=False):
    """Drive the real protocol + handler code in-process.  Returns
    (status, output) where status is 'ok', 'hang' or 'exception: ...'."""
    rfile = io.BytesIO(line.encode())
    wfile = io.BytesIO()
    server = FakeServer()
    server.config = config
    rh = FakeRequestHandler(tls, rfile, wfile)
    proto = ProtocolMultiplexer.getProtocol(
        rfile.readline().decode(), server, rh, rfile, wfile, config
    )
    result = {}

    def run():
        try:
            proto.handle()
            result["status"] = "ok"
        except BaseException as e:  # noqa
            result["status"] = "exception: %r" % (e,)

    t = threading.Thread(target=run, daemon=True)
    t.start()
    t.join(TIMEOUT)
    if t.is_alive():
        return "hang (no answer after %.0f s)" % TIMEOUT, wfile.getvalue()
    return result["status"], wfile.getvalue()


REQUESTS = [
    ("gopher", "/d\r\n", False),
    ("gopher+", "/d\t$\r\n", False),
    ("http", "GET /d HTTP/1.0\r\n\r\n", False),
    ("wap", "GET /wap/d HTTP/1.0\r\n\r\n", False),
    ("gemini", "gemini://localhost/d\r\n", True),
    ("spartan", "localhost /d 0\r\n", False),
]
OTHERS = ["/d/alpha.txt", "/d/beta.txt", "/d/sub"]

SCENARIOS = [
    # (label, handler list, cachetime, age of the FIFO in seconds)
    ("default handlers (UMNDirHandler), fresh FIFO", None, None, 0),
    ("default handlers (UMNDirHandler), FIFO older than cachetime", None, None, 3600),
    ("default handlers, caching disabled (cachetime = 0)", None, 0, 0),
    (
        "plain dir.DirHandler, fresh FIFO",
        "[url.HTMLURLHandler, file.FileHandler, dir.DirHandler]",
        None,
        0,
    ),
]


def build_tree(with_fifo, age):
    root = tempfile.mkdtemp(prefix="c12-1-")
    d = os.path.join(root, "d")
    os.mkdir(d)
    for name in ("alpha.txt", "beta.txt"):
        with open(os.path.join(d, name), "w") as fp:
            fp.write("hello\n")
    os.mkdir(os.path.join(d, "sub"))
    if with_fifo:
        fifo = os.path.join(d, ".cache.pygopherd.dir")
        os.mkfifo(fifo)
        if age:
            old = time.time() - age
            os.utime(fifo, (old, old))
    return root


ROOTS = []


def main():
    failures = []
    mime_done = False
    for label, handlers, cachetime, age in SCENARIOS:
        for with_fifo in (False, True):
            # every protocol for the first scenario, plain gopher for the rest
            for proto, line, tls in REQUESTS if label == SCENARIOS[0][0] else REQUESTS[:1]:
                root = build_tree(with_fifo, age)
                ROOTS.append(root)
                config = make_config(root, handlers, cachetime)
                if not mime_done:
                    initialization.init_mimetypes(config)
                    mime_done = True
                status, out = do_request(config, line, tls)
                missing = [s for s in OTHERS if s.encode() not in out]
                good = status == "ok" and not missing
                if not with_fifo:
                    # control: the same tree without the faulty entry
                    assert good, ("control failed", label, proto, status, out)
                elif not good:
                    failures.append((label, proto, status, missing))
                    print(
                        "VIOLATION [%s] %s request %r: %s; entries missing from "
                        "the listing: %s" % (label, proto, line, status, missing)
                    )

    if failures:
        print()
        print(
            "%d listing(s) of /d failed although the only unservable entry is the "
            "FIFO /d/.cache.pygopherd.dir; the control tree without the FIFO lists "
            "alpha.txt, beta.txt and sub on every protocol." % len(failures)
        )
        sys.stdout.flush()
        for root in ROOTS:
            shutil.rmtree(root, ignore_errors=True)
        os._exit(1)  # the hung daemon threads are blocked in open()
    for root in ROOTS:
        shutil.rmtree(root, ignore_errors=True)
    print("OK: the FIFO entry never took its directory down")
    sys.exit(0)


main()
