#!/usr/bin/env python
"""
C14 / finding 4: with the (default) forking server, 40 connected clients that
are slow to send their request line stop the server from accepting anybody
else.

socketserver.ForkingMixIn.max_children is 40 and pygopherd leaves it alone.
Once 40 children exist, ForkingMixIn.collect_children() - called from the
accept loop after every request - sits in a *blocking* os.waitpid(-1, 0)
until one of them exits.  Each child is itself blocked reading its client's
request line (server.wrap_socket()'s recv(MSG_PEEK) / rfile.readline()), for
up to `timeout` = 60 seconds with the shipped configuration, and for ever if
the option is not set.  Meanwhile the 41st client, which sends a perfectly
good request, gets no answer.

The server is run exactly as bin/pygopherd runs it (initialization code +
serve_forever() in the main thread of a process of its own, servertype =
ForkingTCPServer, conf/pygopherd.conf otherwise unchanged); the clients use
real sockets; nothing is patched.

Exit status: 0 if the 41st client is answered (within 10 seconds) while the
40 others are still connected, 1 otherwise.
"""
import os
import shutil
import socket
import subprocess
import sys
import tempfile
import time
import warnings

ROOT = os.path.dirname(os.path.dirname(os.path.dirname(os.path.abspath(__file__))))
sys.path.insert(0, ROOT)
os.chdir(ROOT)
warnings.simplefilter("ignore")

if len(sys.argv) > 1 and sys.argv[1] == "--serve":
    from pygopherd import initialization, logger

    config = initialization.init_config("conf/pygopherd.conf")
    config.set("pygopherd", "root", sys.argv[2])
    config.set("pygopherd", "servertype", "ForkingTCPServer")  # the default
    config.set("pygopherd", "interface", "127.0.0.1")
    config.set("pygopherd", "port", "0")
    config.set("logger", "logmethod", "none")
    logger.init(config)
    initialization.init_exceptions(config)
    initialization.init_mimetypes(config)
    server = initialization.get_server(config)
    print(server.server_address[1], flush=True)
    server.serve_forever()
    sys.exit(0)

SLOW_CLIENTS = 40
PATIENCE = 10  # seconds

tmp = tempfile.mkdtemp(prefix="c14-flood-")
docroot = os.path.join(tmp, "root")
os.mkdir(docroot)
with open(os.path.join(docroot, "hello.txt"), "w") as fp:
    fp.write("hello\n")

proc = subprocess.Popen(
    [sys.executable, "-W", "ignore", os.path.abspath(__file__), "--serve", docroot],
    stdout=subprocess.PIPE,
    stderr=subprocess.DEVNULL,
)
port = int(proc.stdout.readline())
address = ("127.0.0.1", port)


def fetch(request: bytes, timeout: float):
    started = time.time()
    try:
        with socket.create_connection(address, timeout=timeout) as s:
            s.sendall(request)
            out = b""
            while True:
                data = s.recv(65536)
                if not data:
                    return out, time.time() - started
                out += data
    except socket.timeout:
        return None, time.time() - started


try:
    alone, took = fetch(b"/hello.txt\r\n", PATIENCE)
    print("served alone: %r after %.2fs" % (alone, took))
    assert alone == b"hello\n"

    # 40 clients that have connected but not (yet) sent their request line.
    slow = []
    for _ in range(SLOW_CLIENTS):
        slow.append(socket.create_connection(address, timeout=PATIENCE))
        time.sleep(0.02)
    time.sleep(1.0)

    got, took = fetch(b"/hello.txt\r\n", PATIENCE)

    # The slow clients are still there and perfectly alive: one of them now
    # sends its request and is answered.
    slow[0].sendall(b"/hello.txt\r\n")
    slow_answer = slow[0].recv(100)
finally:
    for s in locals().get("slow", []):
        s.close()
    proc.kill()
    proc.wait()
    shutil.rmtree(tmp, ignore_errors=True)

if got == alone:
    print("OK: 41st client answered in %.2fs while %d slow clients were connected"
          % (took, SLOW_CLIENTS))
    sys.exit(0)
print("with %d slow clients connected, the 41st client's request for /hello.txt "
      "got %r after %.1fs" % (SLOW_CLIENTS, got, took))
print("(slow client #1 then sent its request and got %r)" % slow_answer)
print("FAIL (C14): the server did not keep accepting connections while other "
      "clients were being served")
sys.exit(1)
