#!/venv/bin/python
"""C14 demo 1: a transient fault that hits ONE client's worker is written into
the shared directory cache and is then served to every other client.

Two clients are connected to the threading server at the same time and ask for
the same menu (/docs).  While client A's worker builds the menu, a single
open() of /docs/b.html fails with EMFILE ("Too many open files" - what a
threading server under many simultaneous clients really runs into, since all
workers share one descriptor table).  DirHandler.prep_entries() leaves that
entry out of A's menu (fine: A is the client that was hit) -- but then
DirHandler.savecache() stores the incomplete menu in /docs/.cache.pygopherd.dir.
Client B, whose own worker meets no fault at all, is served from that cache and
does not get the menu it would have got alone against the same content.

Exit status 0 only if B (and a later client C) receive exactly the menu that a
lone client receives.
"""
import builtins
import errno
import os
import shutil
import socket
import sys
import tempfile
import threading
import warnings

ROOT = os.path.dirname(os.path.dirname(os.path.dirname(os.path.abspath(__file__))))
sys.path.insert(0, ROOT)
os.chdir(ROOT)
warnings.simplefilter("ignore")

from pygopherd import GopherExceptions, initialization, logger  # noqa: E402

SELECTOR = b"/docs\r\n"


def build_tree() -> str:
    root = tempfile.mkdtemp(prefix="c14-demo1-")
    os.mkdir(os.path.join(root, "docs"))
    for name, text in (
        ("a.txt", "file a\n"),
        ("b.html", "<html><head><title>Bee page</title></head><body>b</body></html>\n"),
        ("c.txt", "file c\n"),
    ):
        with open(os.path.join(root, "docs", name), "w") as fp:
            fp.write(text)
    return root


def start_server(root):
    config = initialization.init_config("conf/pygopherd.conf")
    config.set("pygopherd", "root", root)
    config.set("pygopherd", "servertype", "ThreadingTCPServer")
    config.set("pygopherd", "interface", "127.0.0.1")
    config.set("pygopherd", "servername", "localhost")
    config.set("pygopherd", "port", "0")
    config.set("logger", "logmethod", "none")
    logger.init(config)
    GopherExceptions.init(False)
    initialization.init_mimetypes(config)
    server = initialization.get_server(config)
    thread = threading.Thread(target=server.serve_forever, args=(0.05,), daemon=True)
    thread.start()
    return server


def connect(port):
    return socket.create_connection(("127.0.0.1", port), timeout=20)


def finish(sock, request=SELECTOR) -> bytes:
    sock.sendall(request)
    data = b""
    while True:
        chunk = sock.recv(65536)
        if not chunk:
            break
        data += chunk
    sock.close()
    return data


def main() -> int:
    root = build_tree()
    server = start_server(root)
    port = server.server_address[1]
    cachefile = os.path.join(root, "docs", ".cache.pygopherd.dir")
    try:
        # What one client gets when it is alone.
        alone = finish(connect(port))
        # Back to the same content as before that request.
        os.unlink(cachefile)

        # One-shot fault: the next open() of b.html fails with EMFILE.
        real_open = builtins.open
        state = {"armed": True, "hits": 0}
        lock = threading.Lock()

        def faulty_open(file, *args, **kwargs):
            name = os.fsencode(file) if isinstance(file, (str, bytes)) else b""
            if name.endswith(b"/docs/b.html"):
                with lock:
                    if state["armed"]:
                        state["armed"] = False
                        state["hits"] += 1
                        raise OSError(errno.EMFILE, os.strerror(errno.EMFILE), file)
            return real_open(file, *args, **kwargs)

        builtins.open = faulty_open
        try:
            # Both clients are connected (each has its own worker thread)
            # before either of them is answered.
            sock_a = connect(port)
            sock_b = connect(port)
            resp_a = finish(sock_a)      # the worker of A meets the fault
            resp_b = finish(sock_b)      # the worker of B meets no fault
        finally:
            builtins.open = real_open
        resp_c = finish(connect(port))   # a later client, no fault anywhere

        print("menu a client receives alone:")
        print(alone.decode(errors="replace"))
        print("faults injected: %d (into the worker of client A only)" % state["hits"])
        print("client A (hit by the fault) received:")
        print(resp_a.decode(errors="replace"))
        bad = 0
        for name, resp in (("B (concurrent, no fault)", resp_b), ("C (afterwards, no fault)", resp_c)):
            if resp != alone:
                bad += 1
                print("VIOLATION: client %s did not receive the menu it would have "
                      "received alone; it received:" % name)
                print(resp.decode(errors="replace"))
        if bad:
            print("The fault of client A's worker was saved in %s and is now served "
                  "to every client until the cache expires." % cachefile)
            return 1
        print("OK: clients B and C received exactly the menu a lone client receives")
        return 0
    finally:
        server.shutdown()
        server.server_close()
        shutil.rmtree(root, ignore_errors=True)


if __name__ == "__main__":
    sys.exit(main())
