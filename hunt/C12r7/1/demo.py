#!/venv/bin/python
"""C12 demo 1: one broken executable *.pyg file takes down the listing of the
directory that contains it (documented "full featureset" handler list).

Exit status 0 = property holds, 1 = property violated, 2 = demo itself broken.
"""
import atexit
import os
import shutil
import sys
import tempfile
import time
import traceback
import warnings

ROOT = os.path.dirname(os.path.dirname(os.path.dirname(os.path.abspath(__file__))))
sys.path.insert(0, ROOT)
os.chdir(ROOT)
warnings.simplefilter("ignore")

from pygopherd import initialization, logger, testutil  # noqa: E402

# The handler list that conf/pygopherd.conf documents "for full Pygopherd
# featureset including scripts and PYG".
FULL_HANDLERS = """[url.HTMLURLHandler, gophermap.BuckGophermapHandler,
            mbox.MaildirFolderHandler, mbox.MaildirMessageHandler,
            UMN.UMNDirHandler,
            tal.TALFileHandler,
            html.HTMLFileTitleHandler,
            mbox.MBoxMessageHandler, mbox.MBoxFolderHandler,
            pyg.PYGHandler, scriptexec.ExecHandler,
            file.CompressedFileHandler, file.FileHandler,
            url.URLTypeRewriter]"""

# (request line, needs TLS mock)
REQUESTS = [
    ("gopher0", "/%s\r\n", False),
    ("gopher+", "/%s\t$\r\n", False),
    ("http", "GET /%s HTTP/1.0\r\n\r\n", False),
    ("spartan", "localhost /%s 0\r\n", False),
    ("gemini", "gemini://localhost/%s\r\n", True),
]


def request(config, line, tls):
    """Drive the real protocol/handler code in-process; returns (reply, exc)."""
    for attempt in range(50):
        try:
            proto = testutil.get_testing_protocol(line, config=config, use_tls=tls)
            break
        except OSError as e:  # port 64777 busy: somebody else runs tests too
            if "in use" not in str(e):
                raise
            time.sleep(0.2)
    else:
        raise SystemExit(2)
    try:
        proto.handle()
    except Exception:
        # In the real server GopherRequestHandler.handle() logs this and the
        # client gets whatever was written so far (nothing, or half a header).
        return proto.wfile.getvalue().decode(errors="surrogateescape"), traceback.format_exc(limit=-3)
    return proto.wfile.getvalue().decode(errors="surrogateescape"), None


def main():
    docroot = tempfile.mkdtemp(prefix="c12-pyg-")
    atexit.register(shutil.rmtree, docroot, True)
    variants = {
        "syntaxerr": "this is not python(\n",
        "nomain": "# a script that somebody made executable and called .pyg\nx = 1\n",
        "raises": "raise RuntimeError('boom at import time')\n",
    }
    for name, body in variants.items():
        d = os.path.join(docroot, name)
        os.mkdir(d)
        for good in ("aaa.txt", "mmm.txt", "zzz.txt"):
            with open(os.path.join(d, good), "w") as fp:
                fp.write("hello\n")
        # control directory: same, without the bad entry
    ctl = os.path.join(docroot, "control")
    os.mkdir(ctl)
    for good in ("aaa.txt", "mmm.txt", "zzz.txt"):
        with open(os.path.join(ctl, good), "w") as fp:
            fp.write("hello\n")

    config = initialization.init_config("conf/pygopherd.conf")
    config.set("pygopherd", "root", docroot)
    config.set("logger", "logmethod", "none")
    config.set("handlers.HandlerMultiplexer", "handlers", FULL_HANDLERS)
    logger.init(config)
    initialization.init_mimetypes(config)

    # baseline
    for proto, fmt, tls in REQUESTS:
        reply, exc = request(config, fmt % "control", tls)
        if exc or not all("/control/%s.txt" % n in reply for n in ("aaa", "mmm", "zzz")):
            print("DEMO BROKEN: control listing failed over", proto, exc, repr(reply))
            return 2

    # now drop one unservable entry into each directory
    for name, body in variants.items():
        p = os.path.join(docroot, name, "broken.pyg")
        with open(p, "w") as fp:
            fp.write(body)
        os.chmod(p, 0o755)

    violations = []
    for name in variants:
        for proto, fmt, tls in REQUESTS:
            reply, exc = request(config, fmt % name, tls)
            missing = [n for n in ("aaa", "mmm", "zzz") if "/%s/%s.txt" % (name, n) not in reply]
            if exc or missing:
                violations.append((name, proto, missing, exc, reply))

    if not violations:
        print("OK: every listing succeeded and contains all the other entries")
        return 0
    print("C12 VIOLATED: a directory with ONE broken executable .pyg file cannot be listed")
    for name, proto, missing, exc, reply in violations:
        print("-- /%s over %s: other entries missing from the listing: %s; reply=%r"
              % (name, proto, missing, reply[:120]))
        if exc:
            print("   exception escaped protocol.handle():", exc.strip().splitlines()[-1])
    return 1


if __name__ == "__main__":
    sys.exit(main())
