#!/venv/bin/python
"""Run several checks against every behaviour-preserving change under /verif/benign: all must stay quiet."""
import glob, os, sys
sys.path.insert(0, os.path.dirname(os.path.dirname(os.path.abspath(__file__))))
from simkit import sensitivity
props = [a for a in sys.argv[1:] if not a.startswith("--")] or ["C03", "C14", "C20", "C10", "C12"]
only = [a[7:] for a in sys.argv[1:] if a.startswith("--only=")]
bad = 0
for p in sorted(glob.glob("/verif/benign/*/patch.diff")):
    name = os.path.basename(os.path.dirname(p))
    if only and not any(o in name for o in only):
        continue
    for prop in props:
        if name.startswith(prop + "-"):
            continue
        verdict, out, dt = sensitivity.run_one(prop, name, p)
        v = {"MISSED": "QUIET", "CAUGHT": "FALSE-ALARM"}.get(verdict, verdict)
        line = ""
        for l in out.splitlines():
            if l.startswith("violation:") or "HARNESS" in l:
                line = l[:300]
                break
        print("%-12s %-4s %-46s %5.1fs %s" % (v, prop, name, dt, line))
        sys.stdout.flush()
        if v not in ("QUIET", "STALE"):
            bad += 1
print("cross-benign: %d problems" % bad)
