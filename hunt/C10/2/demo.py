#!/usr/bin/env python
"""
C10 hunt, finding 2: a RENAME of a directory carries its cache file along, and
the cache entry is then served under a selector it was never written for.

Scenario ("promote testing to stable"), cachetime = 180 s, no clock advance
beyond a few milliseconds:

    /pub/stable/app-1.0.txt          /pub/testing/app-2.0.txt
    1. list /pub/stable, list /pub/testing          (cache entries written)
    2. rename /pub/stable  -> /pub/old
       rename /pub/testing -> /pub/stable
    3. list /pub/stable

C10 says every listing reflects the directory as it was at most one lifetime
ago.  For selector /pub/stable there are exactly two such states: the one
before the renames (app-1.0, selector /pub/stable/app-1.0.txt) and the one
after (app-2.0, selector /pub/stable/app-2.0.txt).  The oracle is a second
server with cachetime=0 over an identical tree that undergoes the same
mutations and is asked before and after the renames ("with lifetime 0 every
listing reflects the current directory").  The cached server must answer with
one of those two listings.  Exit 0 iff it does.

Run:  cd /tmp/wt4-C10 && /venv/bin/python HUNT/2/demo.py
"""
import json
import os
import shutil
import subprocess
import sys
import tempfile
import time

ROOT = os.path.dirname(os.path.dirname(os.path.dirname(os.path.abspath(__file__))))
sys.path.insert(0, ROOT)
os.chdir(ROOT)

RENAMES = [("pub/stable", "pub/old"), ("pub/testing", "pub/stable")]

# The schedule of the system under test (cachetime=180).
SUT = [
    ("req", "/pub/stable"),
    ("req", "/pub/testing"),
    ("rename",),
    ("req", "/pub/stable"),  # <- the listing under test (index 2 of the replies)
    ("req", "/pub/testing/app-2.0.txt"),  # follow the link it hands out
]
# The oracle (cachetime=0) sees the same mutations, and is asked for
# /pub/stable on both sides of them.
ORACLE = [
    ("req", "/pub/stable"),  # state before
    ("req", "/pub/testing"),
    ("rename",),
    ("req", "/pub/stable"),  # state after
]


def build_tree(root):
    os.makedirs(os.path.join(root, "pub", "stable"))
    os.makedirs(os.path.join(root, "pub", "testing"))
    with open(os.path.join(root, "pub", "stable", "app-1.0.txt"), "w") as fp:
        fp.write("release 1.0\n")
    with open(os.path.join(root, "pub", "testing", "app-2.0.txt"), "w") as fp:
        fp.write("release 2.0\n")


def serve(root, cachetime, schedule):
    """Runs inside a child process: one 'server' with a fixed configuration."""
    from io import BytesIO

    from pygopherd import initialization, logger, testutil
    from pygopherd.protocols import ProtocolMultiplexer

    config = initialization.init_config("conf/pygopherd.conf")
    config.set("pygopherd", "root", root)
    config.set("pygopherd", "servername", "gopher.example")
    config.set("logger", "logmethod", "none")
    config.set("handlers.dir.DirHandler", "cachetime", str(cachetime))
    logger.init(config)
    initialization.init_mimetypes(config)

    server = None
    for _ in range(50):
        try:
            server = testutil.get_testing_server(config)
            break
        except OSError:
            time.sleep(0.2)
    assert server is not None, "could not bind the test port"

    out = []
    for step in schedule:
        if step[0] == "rename":
            for src, dst in RENAMES:
                os.rename(os.path.join(root, src), os.path.join(root, dst))
            continue
        rfile = BytesIO(b"")
        wfile = BytesIO()
        handler = testutil.MockRequestHandler(
            testutil.MockRequest(rfile, wfile), ("10.77.77.77", "7777"), server
        )
        handler.rfile, handler.wfile = rfile, wfile
        protocol = ProtocolMultiplexer.getProtocol(
            step[1] + "\r\n", server, handler, rfile, wfile, config
        )
        protocol.handle()
        out.append(wfile.getvalue().decode(errors="surrogateescape"))
    return out


def run_server(root, cachetime, which):
    res = subprocess.run(
        [sys.executable, os.path.abspath(__file__), "--serve", root, str(cachetime), which],
        capture_output=True,
        text=True,
        cwd=ROOT,
    )
    if res.returncode != 0:
        print(res.stdout)
        print(res.stderr)
        raise SystemExit("child server failed")
    return json.loads(res.stdout.strip().splitlines()[-1])


def show(title, text):
    print("  " + title)
    for ln in text.splitlines():
        print("     " + ln)


def main():
    tmp = tempfile.mkdtemp(prefix="c10-h2-")
    try:
        root_ref = os.path.join(tmp, "ref")
        root_sut = os.path.join(tmp, "sut")
        build_tree(root_ref)
        build_tree(root_sut)

        oracle = run_server(root_ref, 0, "ORACLE")
        before, after = oracle[0], oracle[2]
        sut = run_server(root_sut, 180, "SUT")
        served, followed = sut[2], sut[3]

        print("listing of /pub/stable requested right after the renames, cachetime=180:")
        show("served:", served)
        show("allowed (a) the directory before the renames (cachetime=0 oracle):", before)
        show("allowed (b) the directory after the renames  (cachetime=0 oracle):", after)
        if served in (before, after):
            print("PASS: the listing reflects /pub/stable at a moment within the lifetime")
            return 0
        show("following the selector handed out by the served listing gives:", followed)
        print(
            "\nFAIL: the listing served for /pub/stable is neither the directory as "
            "it was before the rename nor as it is now: it is the cache entry that "
            "was written for /pub/testing and travelled with the renamed directory."
        )
        return 1
    finally:
        shutil.rmtree(tmp, ignore_errors=True)


if __name__ == "__main__":
    if len(sys.argv) >= 5 and sys.argv[1] == "--serve":
        sched = {"SUT": SUT, "ORACLE": ORACLE}[sys.argv[4]]
        print(json.dumps(serve(sys.argv[2], int(sys.argv[3]), sched)))
        sys.exit(0)
    sys.exit(main())
