"""C07 (default configuration, clock movement): the directory cache is taken
as fresh whenever  now - mtime(cache file) < cachetime.  After the system clock
has been stepped BACK (NTP step, manual correction, VM restore) that difference
is negative, so the cache written before the step is served for the length of
the step plus cachetime: files created since are missing from the listing and
files deleted since are still in it, long after cachetime (180 s) has passed."""
import os
import sys
import tempfile
import time

# ---- helpers: drive the real pygopherd code in-process ----
import os
import sys
import warnings

warnings.simplefilter("ignore")
ROOT = os.path.dirname(os.path.dirname(os.path.dirname(os.path.abspath(__file__))))
sys.path.insert(0, ROOT)
os.chdir(ROOT)

from pygopherd import gopherentry, initialization, logger, testutil  # noqa: E402
from pygopherd.handlers import HandlerMultiplexer  # noqa: E402
import pygopherd.handlers.base as hbase  # noqa: E402
import pygopherd.handlers.UMN as UMN  # noqa: E402

# The handler list that conf/pygopherd.conf documents as
# "full Pygopherd featureset including scripts and PYG".
FULL = """[url.HTMLURLHandler, gophermap.BuckGophermapHandler,
    mbox.MaildirFolderHandler, mbox.MaildirMessageHandler,
    %s,
    tal.TALFileHandler, html.HTMLFileTitleHandler,
    mbox.MBoxMessageHandler, mbox.MBoxFolderHandler,
    pyg.PYGHandler, scriptexec.ExecHandler,
    file.CompressedFileHandler, file.FileHandler,
    url.URLTypeRewriter]"""
# The default handler list of conf/pygopherd.conf
DEFAULT = """[url.HTMLURLHandler, gophermap.BuckGophermapHandler,
    mbox.MaildirFolderHandler, mbox.MaildirMessageHandler,
    %s, html.HTMLFileTitleHandler,
    mbox.MBoxMessageHandler, mbox.MBoxFolderHandler,
    file.FileHandler]"""
DIRHANDLERS = ["UMN.UMNDirHandler", "dir.DirHandler"]


def make_config(root, handlers=None):
    config = testutil.get_config()  # conf/pygopherd.conf
    config.set("pygopherd", "root", root)
    if handlers:
        config.set("handlers.HandlerMultiplexer", "handlers", handlers)
    config.set("logger", "logmethod", "none")
    logger.init(config)
    initialization.init_mimetypes(config)
    # forget what an earlier configuration left in module globals
    HandlerMultiplexer.handlers = None
    HandlerMultiplexer.rootpath = None
    hbase.rootpath = None
    UMN.extstrip = None
    gopherentry.mapping = None
    gopherentry.eaexts = None
    return config


def request(config, line):
    """Send one request line through the real protocol/handler code."""
    proto = testutil.get_testing_protocol(line, config=config)
    proto.handle()
    return proto.wfile.getvalue()


def listing(config, selector):
    """Selectors of the (non-info) items of the gopher menu of selector, or
    the exception that the request died with."""
    try:
        raw = request(config, selector + "\r\n").decode(errors="surrogateescape")
    except Exception as e:  # the server would drop the connection
        return e
    out = []
    for line in raw.split("\r\n"):
        if not line or line[0] == "i":
            continue
        fields = line.split("\t")
        if line[0] == "3" and len(fields) > 2 and fields[2] == "error.host":
            return RuntimeError("error reply: " + line)
        out.append(fields[1])
    return out
# ---- end of helpers ----

real_time = time.time
bad = 0
for dirhandler in DIRHANDLERS:
    root = tempfile.mkdtemp()
    for name in ("a.txt", "b.txt"):
        with open(os.path.join(root, name), "w") as fp:
            fp.write("hello\n")
    config = make_config(root, DEFAULT % dirhandler)
    cachetime = config.getint("handlers.dir.DirHandler", "cachetime")

    # 12:00:00  first request; the cache file is written (mtime 12:00:00)
    first = listing(config, "/")
    # the administrator / ntpd sets the clock back by one hour; then half an
    # hour (ten times cachetime) goes by; the clock now reads 11:30:00
    t0 = real_time()
    time.time = lambda: t0 - 3600 + 10 * cachetime
    try:
        os.unlink(os.path.join(root, "a.txt"))
        with open(os.path.join(root, "c.txt"), "w") as fp:
            fp.write("new\n")
        second = listing(config, "/")
    finally:
        time.time = real_time

    expected = ["/b.txt", "/c.txt"]
    print("%s: first listing %r; %d s (10 x cachetime) after the clock was set back: %r"
          % (dirhandler, first, 10 * cachetime, second))
    if isinstance(second, Exception) or sorted(second) != expected:
        print("  VIOLATION: the directory now holds exactly %r" % expected)
        bad += 1
sys.exit(1 if bad else 0)
