import os, sys, itertools, configparser
sys.path.insert(0, "/tmp/wt7-C19"); os.chdir("/tmp/wt7-C19")
import pwd, grp
from unittest import mock
from pygopherd import initialization, logger
logger.log = lambda m: None
CALLS = ["chroot", "chdir", "setgroups", "setregid", "setreuid"]
bad = 0
for c, u, g in itertools.product([0,1],[0,1],[0,1]):
    for failing in [None] + CALLS:
        cfg = configparser.ConfigParser(); cfg.add_section("pygopherd")
        cfg.set("pygopherd","usechroot","yes" if c else "no"); cfg.set("pygopherd","root","/srv/g")
        if u: cfg.set("pygopherd","setuid","nobody")
        if g: cfg.set("pygopherd","setgid","nogroup")
        trace = []; state = {"uid":0,"gid":0}
        def mk(name):
            def f(*a):
                trace.append(name)
                if name == failing: raise OSError(1, "EPERM injected")
                if name == "setreuid": state["uid"] = a[0]
                if name == "setregid": state["gid"] = a[0]
            return f
        with mock.patch.multiple(os, chroot=mk("chroot"), chdir=mk("chdir"), setgroups=mk("setgroups"), setregid=mk("setregid"), setreuid=mk("setreuid"),
                getuid=lambda: state["uid"], geteuid=lambda: state["uid"], getgid=lambda: state["gid"], getegid=lambda: state["gid"]):
            try:
                initialization.init_security(cfg); raised = None
            except Exception as e:
                raised = e
        expected = (["chroot","chdir"] if c else []) + (["setgroups"] if (u or g) else []) + (["setregid"] if g else []) + (["setreuid"] if u else [])
        if failing in expected:
            exp_trace = expected[:expected.index(failing)+1]
            ok = raised is not None and trace == exp_trace
        else:
            ok = raised is None and trace == expected and (not c or cfg.get("pygopherd","root") == "/")
        if not ok:
            bad += 1; print("BAD", c,u,g,failing,trace,raised)
print("bad:", bad)
