"""Deterministic scheduler: baton-passing real threads + discrete-event clock.

Exactly one thread (the baton holder) runs at any time; every other actor is
parked on its private lock.  All scheduling decisions are made by the baton
holder from the run's Tape, so the kernel never chooses who runs.

Yield points:
  * every seam call (sockets, files, clock sleeps, thread start/exit, fork,
    waitpid) calls ``yield_point``;
  * ``sys.settrace`` line events in frames whose code lives under the traced
    prefixes (the repository under test), with a tape-drawn gap between forced
    yields (line-level pre-emption).

Blocking is modelled: ``block(pred, timeout)`` parks the actor until the
predicate holds or the simulated deadline passes.  When nothing is runnable
the clock jumps to the next event or deadline.
"""
import _thread
import heapq
import sys
import threading

_RealThread = threading.Thread

EPOCH = 1_000_000_000.0  # 2001-09-09T01:46:40Z
import os as _os
DEBUG_YIELDS = bool(_os.environ.get("VERIF_DEBUG_YIELDS"))
HANG_WALL_S = float(_os.environ.get("VERIF_HANG_WALL_S", "12"))


class SimAbort(BaseException):
    """The run is being torn down; unwind this actor."""


class SimProcessExit(BaseException):
    """os._exit() in a simulated child process."""

    def __init__(self, status):
        super().__init__(status)
        self.status = status


class SimCrash(BaseException):
    """The simulated process running this actor was killed (injected crash)."""


class HarnessError(Exception):
    """Something is wrong with the simulator itself (never a VIOLATION)."""


class Actor:
    __slots__ = (
        "id", "name", "lock", "state", "pred", "deadline", "timed_out", "thread",
        "proc", "exc", "exit_status", "crashed", "on_exit", "label", "is_main",
        "killed", "prio",
    )

    def __init__(self, id, name, proc=0, is_main=False):
        self.id = id
        self.name = name
        self.lock = _thread.allocate_lock()
        self.lock.acquire()
        self.state = "runnable"
        self.pred = None
        self.deadline = None
        self.timed_out = False
        self.thread = None
        self.proc = proc
        self.exc = None
        self.exit_status = None
        self.crashed = False
        self.on_exit = []
        self.label = ""
        self.is_main = is_main
        self.killed = False
        self.prio = 0

    def __repr__(self):
        return f"<Actor {self.id} {self.name} {self.state}>"


_CURRENT_SIM = None


def current_sim():
    return _CURRENT_SIM


_real_allocate_lock = _thread.allocate_lock


class SimLock:
    """Drop-in for threading.Lock.  Outside a simulation (or outside an actor) it
    is a plain lock.  Inside, a contended acquire parks the actor in the
    scheduler instead of blocking the kernel thread, so a lock held across a
    blocking call is a modelled wait (and a liveness problem the checks can see),
    never a real deadlock of the simulator."""

    def __init__(self):
        self._l = _real_allocate_lock()

    def _actor_sim(self):
        sim = _CURRENT_SIM
        if sim is None or sim.closed:
            return None
        me = sim.me()
        if me is None or me.is_main:
            return None
        return sim

    def acquire(self, blocking=True, timeout=-1):
        if self._l.acquire(False):
            return True
        if not blocking:
            return False
        sim = self._actor_sim()
        if sim is None:
            return self._l.acquire(True, timeout)
        deadline = None if timeout is None or timeout < 0 else timeout
        while True:
            sim.lock_waits += 1
            ok = sim.block(lambda: not self._l.locked(), deadline, "lock")
            if self._l.acquire(False):
                return True
            if not ok and deadline is not None:
                return False

    def release(self):
        # (not a yield point: waiters become runnable at the releasing actor's next yield)
        self._l.release()

    def locked(self):
        return self._l.locked()

    __enter__ = acquire

    def __exit__(self, *a):
        self.release()

    def _at_fork_reinit(self):
        self._l = _real_allocate_lock()


class SimRLock:
    """Drop-in for threading.RLock built on SimLock (owner + count)."""

    def __init__(self):
        self._block = SimLock()
        self._owner = None
        self._count = 0

    def acquire(self, blocking=True, timeout=-1):
        me = _thread.get_ident()
        if self._owner == me:
            self._count += 1
            return True
        rc = self._block.acquire(blocking, timeout)
        if rc:
            self._owner = me
            self._count = 1
        return rc

    __enter__ = acquire

    def release(self):
        if self._owner != _thread.get_ident():
            raise RuntimeError("cannot release un-acquired lock")
        self._count -= 1
        if not self._count:
            self._owner = None
            self._block.release()

    def __exit__(self, *a):
        self.release()

    def locked(self):
        return self._block.locked()

    # used by threading.Condition
    def _is_owned(self):
        return self._owner == _thread.get_ident()

    def _release_save(self):
        count, owner = self._count, self._owner
        self._count = 0
        self._owner = None
        self._block.release()
        return (count, owner)

    def _acquire_restore(self, state):
        self._block.acquire()
        self._count, self._owner = state

    def _at_fork_reinit(self):
        self._block._at_fork_reinit()
        self._owner = None
        self._count = 0

    def _recursion_count(self):
        return self._count if self._owner == _thread.get_ident() else 0


_RealCondition = threading.Condition


class SimCondition(_RealCondition):
    """threading.Condition whose wait() parks the actor in the scheduler (the stock one blocks the kernel
    thread on a private real lock: a wait that nobody ends would hang the simulator instead of showing up as
    a worker that never comes back).  Outside an actor it behaves like the stock class."""

    def wait(self, timeout=None):
        sim = _CURRENT_SIM
        me = sim.me() if sim is not None and not sim.closed else None
        if me is None or me.is_main:
            return super().wait(timeout)
        if not self._is_owned():
            raise RuntimeError("cannot wait on un-acquired lock")
        waiter = SimLock()
        waiter.acquire()
        self._waiters.append(waiter)
        saved_state = self._release_save()
        gotit = False
        try:
            if timeout is None:
                waiter.acquire()
                gotit = True
            elif timeout > 0:
                gotit = waiter.acquire(True, timeout)
            else:
                gotit = waiter.acquire(False)
            return gotit
        finally:
            self._acquire_restore(saved_state)
            if not gotit:
                try:
                    self._waiters.remove(waiter)
                except ValueError:
                    pass


def install_sim_locks():
    """Make locks created from now on (in particular module-level locks of the
    code under test, created at import) simulation-aware."""
    threading.Lock = SimLock
    threading.RLock = SimRLock
    threading.Condition = SimCondition


class SimThread(_RealThread):
    """Drop-in for threading.Thread while a Sim is installed."""

    def __init__(self, group=None, target=None, name=None, args=(), kwargs=None,
                 *, daemon=None):
        super().__init__(group=group, target=target, name=name, args=args,
                         kwargs=kwargs or {}, daemon=True)
        self._sim = _CURRENT_SIM
        self._actor = None
        self._sim_proc = None
        # Thread.start() waits on self._started for the new OS thread to come up.  That Event was just built
        # on threading.Lock, i.e. on a SimLock: when the parent's wait() collides with the child's set() (a
        # matter of real timing) the parent would *yield the baton* inside start().  The handshake belongs to
        # the interpreter, not to the simulated program: give it real locks.
        ev = threading.Event.__new__(threading.Event)
        ev._cond = _RealCondition(_real_allocate_lock())
        ev._flag = False
        self._started = ev

    def start(self):
        sim = self._sim
        if sim is None or sim.closed:
            return super().start()
        self._daemonic = True
        cur = sim.me()
        proc = self._sim_proc if self._sim_proc is not None else (cur.proc if cur else 0)
        self._actor = sim._register(self, proc)
        self._name = "sim-%d" % self._actor.id
        super().start()
        sim.note("spawn", self._actor.id)
        sim.yield_point("thread-start")

    def run(self):
        sim = self._sim
        if sim is None or self._actor is None:
            return super().run()
        sim._actor_main(self._actor, super().run)

    def join(self, timeout=None):
        sim = self._sim
        if sim is None or self._actor is None or sim.me() is None:
            return super().join(timeout)
        a = self._actor
        sim.block(lambda: a.state == "done", timeout, "join")

    def is_alive(self):
        if self._actor is not None and self._sim is not None and not self._sim.closed:
            return self._actor.state != "done"
        return super().is_alive()


class Sim:
    def __init__(self, tape, preempt_p=0.0, sticky=0.0, step_cap=200000,
                 trace_prefixes=(), start=EPOCH, policy="random", hot=None, cp_base=0.0):
        self.tape = tape
        self.policy = policy          # 'random' (uniform/sticky) or 'pct' (priorities)
        self.hot = dict(hot or {})    # yield kind -> probability of a priority change point
        self.cp_base = cp_base
        self.low_prio = 0
        self.change_points = 0
        self.hot_lines = {}           # co_filename -> set(lineno) of shared-state stores
        self.hot_frames = {}
        self.hot_hits = 0
        self.preempt_p = preempt_p
        self.sticky = sticky
        self.step_cap = step_cap
        self.trace_prefixes = tuple(trace_prefixes)
        self.now = start
        self.seq = 0
        self.events = []
        self.actors = []
        self.main = Actor(0, "main", is_main=True)
        self.main.state = "main"
        self.current = self.main
        self._tls = threading.local()
        self._tls.actor = self.main
        self.steps = 0
        self.switches = 0
        self.preempts = 0
        self.aborted = None
        self.closed = False
        self.countdown = 0
        self._code_cache = {}
        self.history = []  # (kind, detail...) tuples for the event-log digest
        self.switch_trace = []
        self.harness_error = None
        self.hung = None
        self.hung_where = ""
        self.lock_waits = 0
        self.on_switch = None  # hook(old_actor, new_actor) for process memory swap
        self.proc_of_main = 0

    # ------------------------------------------------------------------ util
    def me(self):
        return getattr(self._tls, "actor", None)

    def note(self, *ev):
        self.history.append(ev)

    def _register(self, thread, proc=0):
        a = Actor(len(self.actors) + 1, "", proc)
        a.thread = thread
        a.name = "a%d" % a.id
        if self.policy == "pct":
            a.prio = 1 + self.tape.choice(1 << 16)
        self.actors.append(a)
        return a

    def spawn(self, fn, name="", proc=None):
        """Start a new actor running fn() (callable from main or an actor)."""
        t = SimThread(target=fn)
        t._sim = self
        if proc is not None:
            t._sim_proc = proc
        t.start()
        if name:
            t._actor.name = name
        return t._actor

    def at(self, delay, fn, label=""):
        self.seq += 1
        heapq.heappush(self.events, (self.now + max(0.0, delay), self.seq, fn, label))

    # ------------------------------------------------------------ scheduling
    def _runnable(self, a):
        if a.state == "runnable":
            return True
        if a.state == "blocked":
            if a.killed:
                return True
            try:
                if a.pred():
                    return True
            except SimAbort:
                raise
            if a.deadline is not None and a.deadline <= self.now:
                a.timed_out = True
                return True
        return False

    def _pick(self, me):
        """Choose who runs next: an Actor, or None when nothing can run."""
        while True:
            cands = []
            if me is not None and not me.is_main and me.state != "done" and self._runnable(me):
                cands.append(me)
            for a in self.actors:
                if a is not me and a.state != "done" and self._runnable(a):
                    cands.append(a)
            nact = len(cands)
            evs = []
            if self.events and self.events[0][0] <= self.now:
                evs = sorted(e for e in self.events if e[0] <= self.now)
                cands.extend(evs)
            if not cands:
                # advance simulated time
                t_next = None
                if self.events:
                    t_next = self.events[0][0]
                for a in self.actors:
                    if a.state == "blocked" and a.deadline is not None:
                        if t_next is None or a.deadline < t_next:
                            t_next = a.deadline
                if t_next is None:
                    return None
                if t_next > self.now:
                    self.now = t_next
                continue
            if len(cands) == 1:
                idx = 0
            elif self.policy == "pct":
                # due events first (in order), then the highest-priority actor
                if evs:
                    idx = nact
                else:
                    idx = max(range(nact), key=lambda i: (cands[i].prio, -cands[i].id))
            elif self.sticky > 0.0 and nact >= 1 and cands[0] is me:
                # sticky policy: continue the current actor unless the tape says otherwise
                if self.tape.chance(1.0 - self.sticky):
                    idx = 1 + self.tape.choice(len(cands) - 1)
                else:
                    idx = 0
            else:
                idx = self.tape.choice(len(cands))
            c = cands[idx]
            if isinstance(c, Actor):
                return c
            # a due event: run it inline, then pick again
            self.events.remove(c)
            heapq.heapify(self.events)
            self.note("ev", c[3])
            try:
                c[2]()
            except (SimAbort, SimCrash, SimProcessExit):
                raise
            except BaseException as e:  # harness bug
                self.harness_error = e
                self.aborted = "harness-error"
                raise SimAbort()

    def _transfer(self, me, nxt, wait=True):
        """Hand the baton from me to nxt (Actor or None = main)."""
        if nxt is None:
            nxt = self.main
        if nxt is me:
            return
        self.switches += 1
        self.switch_trace.append(nxt.id)
        if self.on_switch is not None:
            self.on_switch(me, nxt)
        self.current = nxt
        nxt.lock.release()
        if wait:
            if me.is_main:
                self._main_wait()
            else:
                me.lock.acquire()
            # running again
            if self.aborted and not me.is_main:
                raise SimAbort()

    def _main_wait(self):
        """The main thread waits for the baton; meanwhile it watches for a worker
        that burns CPU without ever reaching a yield point (an infinite loop in the
        system under test) and unwinds it with an asynchronous SimAbort."""
        last = (self.steps, self.switches)
        while not self.main.lock.acquire(timeout=HANG_WALL_S):
            now = (self.steps, self.switches)
            if now != last:
                last = now
                continue
            cur = self.current
            if self.aborted or cur is None or cur.is_main or cur.thread is None:
                continue
            self.aborted = "cpu-hang"
            self.hung = cur
            try:
                import traceback
                fr = sys._current_frames().get(cur.thread.ident)
                self.hung_where = "".join(traceback.format_stack(fr)[-5:]) if fr is not None else ""
            except Exception:
                self.hung_where = ""
            import ctypes
            ctypes.pythonapi.PyThreadState_SetAsyncExc(ctypes.c_ulong(cur.thread.ident),
                                                       ctypes.py_object(SimAbort))

    def yield_point(self, kind=""):
        me = self.me()
        if me is None or me.is_main or self.closed:
            return
        if self.aborted:
            return
        if self.current is not me:
            return  # not holding the baton (should not happen)
        if me.killed:
            raise SimCrash()
        self.steps += 1
        if DEBUG_YIELDS:
            self.history.append(("y", me.id, kind, self.countdown))
        if self.steps > self.step_cap:
            self.aborted = "step-cap"
            raise SimAbort()
        if self.policy == "pct":
            p = self.hot.get(kind, self.cp_base)
            if p > 0.0 and self.tape.chance(p):
                self.low_prio -= 1
                me.prio = self.low_prio
                self.change_points += 1
        nxt = self._pick(me)
        if nxt is not me:
            self._transfer(me, nxt)
            if me.killed:
                raise SimCrash()

    def block(self, pred, timeout=None, label=""):
        """Park the calling actor until pred() or the simulated timeout.
        Returns True if pred() holds, False on timeout."""
        me = self.me()
        if me is None or me.is_main:
            # main/driver cannot block; evaluate once
            return bool(pred())
        if self.aborted:
            raise SimAbort()
        if pred():
            return True
        me.state = "blocked"
        me.pred = pred
        me.deadline = (self.now + timeout) if timeout is not None else None
        me.timed_out = False
        me.label = label
        self.steps += 1
        if self.steps > self.step_cap:
            self.aborted = "step-cap"
            me.state = "runnable"
            raise SimAbort()
        try:
            nxt = self._pick(me)
            if nxt is not me:
                self._transfer(me, nxt)
        finally:
            me.state = "runnable"
            me.pred = None
            me.deadline = None
        if me.killed:
            raise SimCrash()
        if pred():
            return True
        return False

    def sleep(self, dt):
        self.block(lambda: False, max(0.0, dt), "sleep")

    # ------------------------------------------------------------- tracing
    def _global_trace(self, frame, event, arg):
        code = frame.f_code
        flag = self._code_cache.get(code)
        if flag is None:
            flag = 0
            if code.co_filename.startswith(self.trace_prefixes) and code.co_name != "<module>":
                flag = 1
                hl = self.hot_lines.get(code.co_filename)
                if hl:
                    lines = set(l for (_, _, l) in code.co_lines() if l is not None)
                    if lines & hl:
                        flag = 2
            self._code_cache[code] = flag
        if flag == 2:
            return self._local_trace_hot
        return self._local_trace if flag else None

    def _local_trace(self, frame, event, arg):
        if event == "line" and not self.aborted:
            if self.countdown > 0:
                self.countdown -= 1
                if self.countdown == 0:
                    self.countdown = self.tape.gap(self.preempt_p)
                    self.preempts += 1
                    self.yield_point("line")
        return self._local_trace

    def _local_trace_hot(self, frame, event, arg):
        """Frames that contain a shared-state store: yield right before the
        line that stores and right after it (next line event or return of the
        SAME frame, so calls made on that line do not count)."""
        if self.aborted:
            return self._local_trace_hot
        if event == "line" or event == "return":
            hp = self.hot_frames.get(frame)
            if hp is not None and (event == "return" or frame.f_lineno != hp):
                del self.hot_frames[frame]
                self.yield_point("hot-after")
            if event == "line":
                if frame.f_lineno in self.hot_lines.get(frame.f_code.co_filename, ()):
                    self.hot_hits += 1
                    self.yield_point("hot-before")
                    self.hot_frames[frame] = frame.f_lineno
                if self.countdown > 0:
                    self.countdown -= 1
                    if self.countdown == 0:
                        self.countdown = self.tape.gap(self.preempt_p)
                        self.preempts += 1
                        self.yield_point("line")
        return self._local_trace_hot

    # ------------------------------------------------------- actor lifecycle
    def _actor_main(self, actor, body):
        actor.lock.acquire()  # wait for the first baton
        self._tls.actor = actor
        try:
            if self.aborted:
                return
            if (self.preempt_p > 0.0 or self.hot_lines) and self.trace_prefixes:
                sys.settrace(self._global_trace)
            try:
                body()
            except SimAbort:
                pass
            except SimProcessExit as e:
                actor.exit_status = e.status
            except SimCrash:
                actor.crashed = True
            except BaseException as e:  # escaped the thread
                actor.exc = e
        finally:
            sys.settrace(None)
            actor.state = "done"
            for cb in actor.on_exit:
                try:
                    cb(actor)
                except BaseException as e:
                    self.harness_error = self.harness_error or e
            self.note("exit", actor.id)
            if self.aborted:
                self.current = self.main
                self.main.lock.release()
            else:
                try:
                    nxt = self._pick(None)
                except SimAbort:
                    nxt = None
                self._transfer(actor, nxt, wait=False)

    # --------------------------------------------------------------- driver
    def run(self):
        """Called from the main thread: run until nothing can run any more.
        Returns 'done' (all actors finished), 'idle' (some are parked for
        ever), or the abort reason."""
        assert self.me() is self.main
        while True:
            if self.aborted:
                return self.aborted
            try:
                nxt = self._pick(None)
            except SimAbort:
                return self.aborted
            if nxt is None:
                if all(a.state == "done" for a in self.actors):
                    return "done"
                return "idle"
            self._transfer(self.main, nxt)

    def kill(self, actor):
        """Injected crash: the actor dies at its next yield point."""
        actor.killed = True

    def teardown(self):
        """Unwind every actor that is still alive.  Always call in finally."""
        if not self.aborted:
            self.aborted = "teardown"
        for a in list(self.actors):
            if a.state != "done":
                self.current = a
                a.lock.release()
                if not self.main.lock.acquire(timeout=20):
                    self.harness_error = self.harness_error or HarnessError(
                        "actor %r did not unwind" % a)
                    break
        for a in list(self.actors):
            if a.thread is not None:
                _RealThread.join(a.thread, 5)
        self.closed = True

    # ------------------------------------------------------------ install
    def install(self):
        global _CURRENT_SIM
        import time
        self._saved = (threading.Thread, time.time, time.monotonic, time.sleep)
        _CURRENT_SIM = self
        threading.Thread = SimThread
        time.time = lambda: self.now
        time.monotonic = lambda: self.now - EPOCH
        time.sleep = self.sleep
        self.countdown = self.tape.gap(self.preempt_p) if self.preempt_p > 0 else 0

    def uninstall(self):
        global _CURRENT_SIM
        import time
        threading.Thread, time.time, time.monotonic, time.sleep = self._saved
        _CURRENT_SIM = None
