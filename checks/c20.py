"""C20 - a failing client connection is contained in its own handler.

One connection per run: the k-th sendall (k from 0 to the fault-free count)
raises EPIPE / ECONNRESET / a single-argument timeout / EAGAIN, optionally
after a partial send; all later sends on that connection fail too.  Then a
probe connection is served.

Oracles: (1) nothing reaches the accept loop or socketserver.handle_error and
the probe is answered; (2) the log carries the client's address with the
injected error's class and no EXCEPTION record of another class (except
FileNotFound for not-found requests); (3) every file opened for the request
is closed and the process' descriptor set is unchanged after the worker has
finished and the cyclic GC has run.
"""
import gc
import os
import random

from simkit import harness, proto, sched, world, fs as simfs, net as simnet
from simkit.tape import Tape
from . import common

PROPERTY = "C20"
LEVEL = "fault_enumeration"
RUNS = {"quick": 3000, "thorough": 40000}
BATCH = 40
EXHAUSTIVE_SWEEP = False
RULE = ("(response kind x protocol x write index k x error class x partial-send x server type): a sweep "
        "enumerates every (kind, protocol) with k in {0,1,last} (quick) or every k (thorough) against a "
        "fixed world, seeded runs vary world sizes, k, error class and partial sends; non-trivial = the "
        "send fault actually fired; distinct = distinct (kind, protocol, k-bucket, error, server) tuples")
REAL = common.REAL
STUB = common.STUB
ASSUMPTIONS = [
    "a send failure is injected at sendall() granularity (optionally after a partial send); every later "
    "send on the connection fails the same way, as on a dead TCP connection",
    "the single-argument timeout is the exception ssl and Python-level socket timeouts raise",
]
PROBES_REQUIRED = ["net_send_fault_EPIPE", "net_send_fault_ECONNRESET", "net_send_fault_TIMEOUT1",
                   "net_send_fault_EAGAIN"]

ERRORS = ["EPIPE", "ECONNRESET", "TIMEOUT1", "EAGAIN", "SSLTIMEOUT", "ETIMEDOUT"]
ERRCLASS = {"EPIPE": "BrokenPipeError", "ECONNRESET": "ConnectionResetError",
            "TIMEOUT1": "TimeoutError", "SSLTIMEOUT": "TimeoutError",
            "EAGAIN": "BlockingIOError", "ETIMEDOUT": "TimeoutError"}

KINDS = {
    "doc-small": "/small.txt",
    "doc-large": "/big.txt",
    "menu": "/docs",
    "menu-root": "/",
    "menu-via-symlink": "/docs-link",
    "html": "/page.html", "html-alpha": "/alpha.html", "html-beta": "/beta.html",
    "mbox-folder": "/mail.mbox",
    "mbox-message": "/mail.mbox|/MBOX-MESSAGE/2",
    "maildir-folder": "/md",
    "maildir-message": "/md|/MAILDIR-MESSAGE/1",
    "zip-listing": "/arc.zip/d",
    "zip-member": "/arc.zip/d/b.txt",
    "zip-html-a": "/arc.zip/web/a.html",
    "zip-html-b": "/arc.zip/web/b.html",
    "zip-web-listing": "/arc.zip/web",
    "maildir-message-2": "/md|/MAILDIR-MESSAGE/2",
    "mbox-message-1": "/mail.mbox|/MBOX-MESSAGE/1",
    "zip-exec-member": "/arc.zip/bin/tool.sh",
    "zip-pyg-member": "/arc.zip/bin/run.pyg",
    "zip2-member": "/arc2.zip/nope/x",
    "zip2-listing": "/arc2.zip",
    "zip-gz-member": "/arc.zip/d/z.txt.gz",
    # paths that exist in one archive only, asked for in the other one
    "zip-cross-1": "/arc.zip/nope/x", "zip-cross-2": "/arc2.zip/d/b.txt", "zip-cross-3": "/arc2.zip/d/c.txt",
    "zip3-listing": "/arc3.zip", "zip3-ok": "/arc3.zip/ok.txt", "zip3-enc": "/arc3.zip/enc.txt",
    "zip3-d64": "/arc3.zip/d64.txt",
    "maildir-new": "/md/new", "maildir-cur": "/md/cur",
    "url-named-file": "/docs/URL:",
    "tal-upper": "/UPPER.HTML.TAL", "gz-lower": "/docs/rep.txt.gz", "gz-upper": "/docs/REP.TXT.GZ",
    "script": "/script.sh",
    # documents whose first line begins like an mbox separator but is none
    "from-line-doc": "/letters/fromdesk.txt", "from-line-doc-2": "/letters/fromlong.txt", "from-line-menu": "/letters",
    "script-big": "/bigscript.sh",
    "gz-big": "/bigz.txt.gz",
    "tal": "/t.html.tal",
    "gz": "/z.txt.gz",
    "notfound": "/no-such-thing",
    "gophermap": "/gm",
    "stale-links": "/stale",
    "hidden-twice": "/meta2",
    "url": "URL:http://example.org/x",
    "pyg": "/hello.pyg",
}
PROTOS = ["gopher", "gopher+", "gopher$", "gopher!", "http", "head", "wap", "gemini", "spartan",
          "https", "sgopher", "sgopher+"]

PYG = '''from pygopherd.handlers.pyg import PYGBase
from pygopherd.gopherentry import GopherEntry


class PYGMain(PYGBase):
    def canhandlerequest(self):
        return True

    def isdir(self):
        return False

    def getentry(self):
        entry = GopherEntry(self.selector, self.config)
        entry.type = "0"
        entry.mimetype = "text/plain"
        entry.name = "pyg"
        return entry

    def write(self, wfile):
        wfile.write(b"hello from pyg\\n")
        wfile.write(b"second write\\n")
'''


def _odd_zip():
    import io
    import struct
    import zipfile
    buf = io.BytesIO()
    with zipfile.ZipFile(buf, "w") as z:
        for name, text in (("ok.txt", b"fine\n"), ("enc.txt", b"pretend this is encrypted\n"),
                           ("d64.txt", b"pretend this is deflate64\n"), ("page.html", b"<title>x</title>")):
            z.writestr(zipfile.ZipInfo(name, date_time=(2001, 9, 1, 12, 0, 0)), text)
    data = bytearray(buf.getvalue())

    def patch(name, local_off, central_off, value, width):
        for sig, off in ((b"PK\x03\x04", local_off), (b"PK\x01\x02", central_off)):
            i = 0
            while True:
                i = data.find(sig, i)
                if i < 0:
                    break
                nlen_off = 26 if sig == b"PK\x03\x04" else 28
                hdr = 30 if sig == b"PK\x03\x04" else 46
                n = struct.unpack("<H", data[i + nlen_off:i + nlen_off + 2])[0]
                if bytes(data[i + hdr:i + hdr + n]) == name:
                    data[i + off:i + off + width] = struct.pack("<H", value)
                i += 4
    patch(b"enc.txt", 6, 8, 0x1, 2)       # general purpose flag bit 0: encrypted
    patch(b"d64.txt", 8, 10, 9, 2)        # compression method 9: Deflate64
    return bytes(data)


def make_spec(bigsize=9000, nmsg=3, ndocs=4):
    import base64
    import gzip
    spec = [
        {"p": "small.txt", "k": "file", "d": "tiny\n"},
        {"p": "big.txt", "k": "file", "d": {"rep": ["0123456789abcdef\n", max(1, bigsize // 17)]}},
        {"p": "page.html", "k": "file", "d": "<html><head><title>A page</title></head><body>b</body></html>\n"},
        # titles that take several reads to scan
        {"p": "alpha.html", "k": "file", "d": "<html>\n<head>\n<title>Alpha\nalpha\nALPHA</title>\n</head><body>a</body></html>\n"},
        {"p": "beta.html", "k": "file", "d": "<html>\n<head>\n<title>\nBeta\nbeta</title>\n</head><body>b</body></html>\n"},
        {"p": "docs", "k": "dir"},
        {"p": "docs/.abstract", "k": "file", "d": "About docs\n"},
        {"p": "mail.mbox", "k": "mbox", "n": nmsg},
        {"p": "md", "k": "maildir", "n": 2},
        {"p": "arc.zip", "k": "zip", "members": [["a.txt", "zip a\n"], ["d/", ""],
                                                  ["d/b.txt", {"rep": ["zip member line\n", 400]}],
                                                  ["d/c.txt", "c\n"],
                                                  ["web/a.html", "<html><head><title>Page A</title></head></html>\n"],
                                                  ["web/b.html", "<html><head><title>Page B</title></head></html>\n"],
                                                  ["bin/tool.sh", "#!/bin/sh\necho tool inside the archive\n", 0o755],
                                                  ["bin/run.pyg", PYG, 0o755],
                                                  ["d/z.txt.gz", {"b64": base64.b64encode(gzip.compress(b"compressed inside the archive\n", mtime=0)).decode()}]]},
        # members that zipfile can list but not open: one flagged as encrypted, one "compressed" with a method
        # this Python does not implement (Deflate64)
        {"p": "arc3.zip", "k": "file", "d": {"b64": base64.b64encode(_odd_zip()).decode()}},
        {"p": "docs/URL:", "k": "file", "d": "a file whose name is the URL prefix\n"},
        # the same suffixes in another letter case (type extensions are matched case-insensitively by
        # mimetypes, encoding suffixes such as .gz and .tal are not)
        {"p": "UPPER.HTML.TAL", "k": "file", "d": "<html><body tal:content=\"selector\">x</body></html>\n"},
        {"p": "docs/rep.txt.gz", "k": "file",
         "d": {"b64": base64.b64encode(gzip.compress(b"lower case name\n", mtime=0)).decode()}},
        {"p": "docs/REP.TXT.GZ", "k": "file",
         "d": {"b64": base64.b64encode(gzip.compress(b"UPPER CASE NAME\n", mtime=0)).decode()}},
        {"p": "arc2.zip", "k": "zip", "members": [["nope/x", "in the second archive\n"], ["d/only2.txt", "2\n"],
                                                   ["a.txt", "another a\n"]]},
        {"p": "script.sh", "k": "file", "d": "#!/bin/sh\necho hello from script\necho \"query=$SEARCHREQUEST\"\necho \"selector=$SELECTOR request=$REQUEST args=$*\"\n", "x": True},
        {"p": "t.html.tal", "k": "file",
         "d": "<html><body>Selector: <b tal:content=\"selector\">s</b>"
              "<p tal:repeat=\"i python:range(5)\">row <i tal:content=\"i\">0</i></p></body></html>\n"},
        {"p": "z.txt.gz", "k": "file",
         "d": {"b64": base64.b64encode(gzip.compress(b"compressed text\n" * 10, mtime=0)).decode()}},
        {"p": "bigscript.sh", "k": "file", "x": True,
         "d": "#!/bin/sh\ni=0\nwhile [ $i -lt %d ]; do echo \"line $i of a long script output 0123456789012345678901234567890123456789\"; i=$((i+1)); done\n" % max(400, bigsize // 50)},
        {"p": "bigz.txt.gz", "k": "file",
         "d": {"b64": base64.b64encode(gzip.compress(b"a long compressed document line 0123456789\n" * max(600, bigsize // 40), mtime=0)).decode()}},
        {"p": "gm", "k": "dir"},
        {"p": "gm/gophermap", "k": "file",
         "d": "Welcome\n0A file\tfile.txt\n1Docs\t/docs\nhSite\tURL:http://example.org/\nhHome page\tURL:\n"
              "i\t\tnull.host\t1\niAn info line in full form\tfake\t(NULL)\t0\n\n0Last\tfile.txt\texample.org\t70\n"},
        {"p": "gm/file.txt", "k": "file", "d": "in gm\n"},
        {"p": "hello.pyg", "k": "file", "d": PYG, "x": True},
    ]
    # one file per rule of the [GopherEntry] mapping table (image/gif, image/*, audio/*, binhex,
    # application/*, multipart) so that a wrong or incomplete table shows in listings
    import base64 as _b64
    blob = {"b64": _b64.b64encode(bytes(range(64))).decode()}
    for nm in ("photo.gif", "shot.jpg", "tool.bin", "sound.wav", "old.hqx", "paper.pdf", "page2.htm"):
        spec.append({"p": "docs/" + nm, "k": "file", "d": blob})
    spec.append({"p": "logo.png", "k": "file", "d": blob})
    # stale metadata: link-file blocks about files that are gone
    spec.append({"p": "stale", "k": "dir"})
    spec.append({"p": "stale/kept.txt", "k": "file", "d": "kept\n"})
    spec.append({"p": "stale/.names", "k": "file",
                 "d": "Path=./gone.txt\nName=Gone but titled\nNumb=1\n\nPath=./hidden-and-gone\nType=X\n\n"
                      "Path=./untitled-and-gone\nNumb=2\n"})
    # repeated metadata: the same file hidden by two link-file blocks
    spec.append({"p": "meta2", "k": "dir"})
    spec.append({"p": "meta2/shown.txt", "k": "file", "d": "shown\n"})
    spec.append({"p": "meta2/twice.txt", "k": "file", "d": "hidden twice\n"})
    spec.append({"p": "meta2/.names", "k": "file", "d": "Path=./twice.txt\nType=X\n"})
    spec.append({"p": "meta2/.links", "k": "file", "d": "Path=./twice.txt\nType=X\n"})
    spec.append({"p": "docs/sub", "k": "dir"})
    spec.append({"p": "docs/sub/deep.txt", "k": "file", "d": "deep\n"})
    # another name for the same directory (a symlink that stays inside the root)
    spec.append({"p": "docs-link", "k": "symlink", "to": "docs"})
    spec.append({"p": "docs/empty.txt", "k": "file", "d": ""})
    spec.append({"p": "letters", "k": "dir"})
    spec.append({"p": "letters/fromdesk.txt", "k": "file",
                 "d": "From the desk of the gopher administrator, with greetings to everybody\nDear all,\nnothing new.\n"})
    spec.append({"p": "letters/fromlong.txt", "k": "file",
                 "d": "From " + "the-gopher-administrator-at-a-rather-long-host-name.example.org" + "\nnot a mailbox either\n"})
    for i in range(ndocs):
        spec.append({"p": "docs/doc%d.txt" % i, "k": "file", "d": "doc %d\n" % i})
    spec.append({"p": "docs/doc0.txt.abstract", "k": "file", "d": "abstract of doc0\n"})
    return spec


def gen(seed, index, tier):
    rng = random.Random(seed)
    kind = rng.choice(sorted(KINDS))
    return {
        "kind": kind,
        "proto": rng.choice(PROTOS),
        "k": rng.choice([{"abs": 0}, {"abs": 1}, {"abs": 2}, {"from_end": 1}, {"frac": rng.random()},
                         {"frac": rng.random()}]),
        "error": rng.choice(ERRORS),
        "partial": rng.choice([0, 0, 1, 3]),
        "servertype": rng.choice(["ThreadingTCPServer", "ForkingTCPServer"]),
        "world": {"bigsize": rng.choice([100, 4096, 4097, 9000, 20000, 150000, 300000]), "nmsg": rng.randrange(2, 5),
                  "ndocs": rng.randrange(1, 8)},
        "sched_seed": rng.randrange(1 << 30),
    }


def SWEEP(tier):
    out = []
    errs3 = ["EPIPE", "TIMEOUT1", "ECONNRESET", "EAGAIN"]
    i = 0
    for kind in sorted(KINDS):
        for p in PROTOS:
            ks = [{"abs": 0}, {"abs": 1}, {"from_end": 1}] if tier == "quick" else \
                [{"abs": j} for j in range(0, 14)] + [{"from_end": 1}, {"from_end": 2}]
            for k in ks:
                errs = [errs3[i % 4]] if tier == "quick" else ERRORS
                i += 1
                for e in errs:
                    out.append({"kind": kind, "proto": p, "k": k, "error": e, "partial": 0,
                                "servertype": "ThreadingTCPServer" if i % 2 else "ForkingTCPServer",
                                "world": {"bigsize": 9000, "nmsg": 3, "ndocs": 4},
                                "sched_seed": 7, "sweep": True})
    return out


def _nfds():
    return len(simfs.real_listdir("/proc/self/fd"))


def _children():
    """Real child processes of this process (running or not yet reaped)."""
    out = set()
    for tid in simfs.real_listdir("/proc/self/task"):
        try:
            with simfs.real_open("/proc/self/task/%s/children" % tid) as f:
                out.update(f.read().split())
        except OSError:
            pass
    return out


def execute(sc, tape=None):
    harness.load_repo()
    sel = KINDS[sc["kind"]]
    req, tls = proto.make_request(sc["proto"], sel)
    with harness.Scratch("c20") as base:
        root = os.path.join(base, "root")
        world.build(root, make_spec(**sc["world"]))
        # fault-free run: how many sendall calls does this response take?
        refroot = os.path.join(base, "ref")
        harness.copy_tree(root, refroot)
        run0 = harness.SimRun(refroot, Tape(replay=[]), sc["sched_seed"], servertype=sc["servertype"],
                              tls=True, handlers="full")
        with run0:
            c0 = run0.client(req, tls=tls)
            run0.go()
            run0.shutdown()
        nsend = c0.send_calls
        base_classes = set(r[1] for r in run0.exception_records())
        refbytes = bytes(c0.s2c)
        if nsend == 0:
            # nothing is ever written (e.g. HEAD has headers only... or empty file): trivial
            return common.result(None, None, {"no_writes": 1}, common.digest(refbytes), [], 0.0)
        kspec = sc["k"]
        if "abs" in kspec and kspec["abs"] >= nsend:
            if sc.get("sweep"):
                return common.result(None, None, {"k_beyond_response": 1}, common.digest(refbytes), [], 0.0)
            k = nsend - 1
        elif "from_end" in kspec:
            k = max(0, nsend - kspec["from_end"])
        elif "frac" in kspec:
            k = min(nsend - 1, int(kspec["frac"] * nsend))
        else:
            k = kspec["abs"]
        tp = Tape(sc["sched_seed"], replay=tape)
        run = harness.SimRun(root, tp, sc["sched_seed"], servertype=sc["servertype"], tls=True,
                             handlers="full")
        viol = None
        with run:
            gc.collect()
            fds0 = _nfds()
            kids0 = _children()
            fault = simnet.SendFault(k, sc["error"], sc["partial"])
            c = run.client(req, tls=tls, send_fault=fault, addr=("10.9.8.7", 4321))
            st = run.go()
            run.collect()
            worker_done = all(a.state == "done" for a in run.sim.actors if a is not run.accept_actor)
            recs = run.exception_records()
            want_cls = ERRCLASS[sc["error"]]
            sig = {"proto_family": proto.PROTOCOLS[sc["proto"]][1], "error": sc["error"]}
            if fault.fired == 0 and c.send_calls != nsend:
                # the response was cut into writes differently than in the fault-free run (output of a real child
                # process read through a real pipe in chunks): the chosen write index was never reached
                run.shutdown()
                return common.result(None, None, {"write_index_not_reached": 1}, common.digest(refbytes), [], 0.0)
            if fault.fired == 0:
                raise sched.HarnessError("send fault did not fire (k=%d nsend=%d)" % (k, nsend))
            escaped = [a for a in run.sim.actors if a is not run.accept_actor and getattr(a, "exc", None) is not None]
            if run.killed_by_sigpipe:
                viol = {"oracle": "process-survives-client-failure",
                        "signature": dict(sig, oracle="process-survives-client-failure"),
                        "detail": "the write to the dead client raised SIGPIPE and the program had restored its "
                                  "default disposition: the serving process was killed, nothing was logged"}
            elif escaped:
                viol = {"oracle": "contained-in-handler",
                        "signature": dict(sig, oracle="contained-in-handler", exc=type(escaped[0].exc).__name__,
                                          via="left-the-worker"),
                        "detail": "%r left the connection's worker (after the handler had returned)" % (escaped[0].exc,)}
            elif run.accept_loop_exc is not None:
                viol = {"oracle": "accept-loop", "signature": dict(sig, oracle="accept-loop",
                                                                   exc=type(run.accept_loop_exc).__name__),
                        "detail": repr(run.accept_loop_exc)}
            elif run.handle_errors:
                viol = {"oracle": "contained-in-handler",
                        "signature": dict(sig, oracle="contained-in-handler", exc=run.handle_errors[0][1]),
                        "detail": "socketserver.handle_error invoked: %r" % (run.handle_errors[0],)}
            elif not worker_done:
                viol = {"oracle": "worker-finishes", "signature": dict(sig, oracle="worker-finishes"),
                        "detail": "worker still alive after the failed write: state=%s" % st}
            else:
                # classes already logged by the fault-free run of the same request are
                # not consequences of the injected failure (they are C03's business)
                family = {want_cls}
                if sc["error"] == "ECONNRESET":
                    family.add("BrokenPipeError")   # what the kernel reports for writes after the reset
                others = [r for r in recs if r[1] not in family and r[1] not in base_classes]
                mine = [l for l in run.log if "10.9.8.7" in l and want_cls in l]
                if others:
                    viol = {"oracle": "logged-under-own-class",
                            "signature": dict(sig, oracle="logged-under-own-class", logged_as=others[0][1]),
                            "detail": "log: %r" % ([r[2] for r in recs],)}
                elif not mine:
                    vsig = dict(sig, oracle="logged-with-address")
                    if run.counters.get("child_write_failed_silently"):
                        # the failing write was the child process's own (it was given the client
                        # socket as stdout): the server process never saw the error
                        vsig["via"] = "child-process-writes-to-client-socket"
                    viol = {"oracle": "logged-with-address",
                            "signature": vsig,
                            "detail": "no record '10.9.8.7 ... EXCEPTION %s'; log: %r" % (want_cls, run.log[-5:])}
            if viol is None:
                leaked = [f._rel for f in run.fs.leaked_files()]
                fds1 = _nfds()
                if leaked:
                    viol = {"oracle": "files-closed", "signature": dict(sig, oracle="files-closed",
                                                                        kind=sc["kind"]),
                            "detail": "still open after worker exit + gc: %r" % leaked}
                elif fds1 != fds0:
                    viol = {"oracle": "fd-set-unchanged", "signature": dict(sig, oracle="fd-set-unchanged",
                                                                            kind=sc["kind"]),
                            "detail": "fd count %d -> %d" % (fds0, fds1)}
                else:
                    left = _children() - kids0
                    if left:
                        # a program started for the request (decompressor, script) was neither waited for nor
                        # killed: it, its pipe and its place in the process table outlive the request
                        viol = {"oracle": "child-processes-reaped",
                                "signature": dict(sig, oracle="child-processes-reaped", kind=sc["kind"]),
                                "detail": "%d child process(es) of the request left behind (running or unreaped) "
                                          "after the worker finished" % len(left)}
            if viol is None:
                # probe connection: the server is still serving
                preq, ptls = proto.make_request("gopher", "/small.txt")
                pc = run.client(preq, tls=ptls)
                run.go()
                if bytes(pc.s2c) != b"tiny\n":
                    viol = {"oracle": "probe-served", "signature": dict(sig, oracle="probe-served"),
                            "detail": "probe got %r" % bytes(pc.s2c)[:200]}
                if run.servertype == "ForkingTCPServer" and viol is None:
                    z = run.forksim.zombies()
                    # one more service_actions pass happens with the next accept; not required here
            run.shutdown()
            counters = common.run_counters(run)
        kb = "k%d" % k if k < 4 else ("last" if k == nsend - 1 else "mid")
        shape = [sc["kind"], sc["proto"], kb, sc["error"], sc["servertype"], bool(sc["partial"])]
        return common.result(viol, shape, counters, common.run_digest(run, [bytes(c.s2c)]), tp.rec,
                             run.sim.now - sched.EPOCH, run.sim.steps, run.sim.switches)


def shrink(sc):
    if sc["partial"]:
        c = dict(sc)
        c["partial"] = 0
        yield c
    if sc["servertype"] != "ThreadingTCPServer":
        c = dict(sc)
        c["servertype"] = "ThreadingTCPServer"
        yield c
    if sc["k"] != {"abs": 0}:
        c = dict(sc)
        c["k"] = {"abs": 0}
        yield c
    if sc["kind"] != "doc-small":
        c = dict(sc)
        c["kind"] = "doc-small"
        yield c
    w = {"bigsize": 100, "nmsg": 2, "ndocs": 1}
    if sc["world"] != w:
        c = dict(sc)
        c["world"] = w
        yield c
