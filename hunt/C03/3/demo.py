#!/usr/bin/env python
"""C03 hunt #3: ExecHandler and CompressedFileHandler hand `wfile` to a child
process (subprocess.run(..., stdout=wfile)).  That only works when wfile is the
plain socket.

 A. WAP: text/plain documents are rendered into a BytesIO first
    (WAPProtocol.handlerwrite).  BytesIO has no fileno(), subprocess raises
    io.UnsupportedOperation (an OSError) *after* "HTTP/1.0 200 OK" + headers
    went out, the protocol's `except IOError` then appends a second,
    complete "HTTP/1.0 200 Not Found" response.  The client receives two
    status lines / header blocks in one answer.
 B. TLS (Gemini, HTTPS, secure Gopher) with CompressedFileHandler: the
    decompressor writes its clear-text output straight to the socket's file
    descriptor, underneath the TLS layer.  The client gets the status line
    and then a TLS protocol error instead of the document.
    (ExecHandler has a special case for TLS; CompressedFileHandler has not.)

Handler list: the "full Pygopherd featureset" list documented in
conf/pygopherd.conf, decompressors = {'gzip': 'zcat'} as documented there.
Exits 0 iff every request got exactly one well-formed, complete answer.
"""
import gzip
import os
import shutil
import socket
import ssl
import sys
import tempfile
import threading
import warnings

warnings.filterwarnings("ignore", category=SyntaxWarning)  # vendored simpletal

ROOT = os.path.dirname(os.path.dirname(os.path.dirname(os.path.abspath(__file__))))
sys.path.insert(0, ROOT)
os.chdir(ROOT)

from pygopherd import GopherExceptions, initialization, logger  # noqa: E402
from pygopherd.server import GopherRequestHandler, ThreadingTCPServer  # noqa: E402

FULL_HANDLERS = """[url.HTMLURLHandler, gophermap.BuckGophermapHandler,
            mbox.MaildirFolderHandler, mbox.MaildirMessageHandler,
            UMN.UMNDirHandler,
            tal.TALFileHandler,
            html.HTMLFileTitleHandler,
            mbox.MBoxMessageHandler, mbox.MBoxFolderHandler,
            pyg.PYGHandler, scriptexec.ExecHandler,
            file.CompressedFileHandler, file.FileHandler,
            url.URLTypeRewriter]"""


def start(docroot, tls):
    config = initialization.init_config("conf/pygopherd.conf")
    config.set("pygopherd", "root", docroot)
    config.set("pygopherd", "timeout", "5")
    config.set("logger", "logmethod", "none")
    config.set("handlers.HandlerMultiplexer", "handlers", FULL_HANDLERS)
    config.set("handlers.file.CompressedFileHandler", "decompressors", "{'gzip': 'zcat'}")
    logger.init(config)
    log_lines = []
    logger.log = log_lines.append
    GopherExceptions.init(False)  # keep stderr quiet; errors are still logged
    initialization.init_mimetypes(config)
    context = None
    if tls:
        context = ssl.create_default_context(ssl.Purpose.CLIENT_AUTH)
        context.load_cert_chain("testdata/demo.crt", "testdata/demo.key")
    server = ThreadingTCPServer(
        config, ("127.0.0.1", 0), GopherRequestHandler, context=context
    )
    server.daemon_threads = True
    threading.Thread(target=server.serve_forever, daemon=True).start()
    return server, log_lines


def ask(server, data, tls=False):
    """Returns (bytes received, transport error or None)."""
    s = socket.create_connection(server.server_address[:2], timeout=10)
    if tls:
        ctx = ssl.SSLContext(ssl.PROTOCOL_TLS_CLIENT)
        ctx.check_hostname = False
        ctx.verify_mode = ssl.CERT_NONE
        s = ctx.wrap_socket(s)
    out, err = b"", None
    try:
        s.sendall(data)
        if not tls:
            s.shutdown(socket.SHUT_WR)
        while True:
            chunk = s.recv(65536)
            if not chunk:
                break
            out += chunk
    except (ssl.SSLError, OSError) as e:
        err = e
    finally:
        s.close()
    return out, err


def http_single_response(resp, must_contain):
    head, sep, body = resp.partition(b"\r\n\r\n")
    return (
        bool(sep)
        and head.startswith(b"HTTP/1.0 ")
        and resp.count(b"HTTP/1.0 ") == 1  # exactly one status line
        and must_contain in body
    )


def gemini_ok(resp, must_contain):
    line, sep, body = resp.partition(b"\r\n")
    if not sep or not line[:2].isdigit() or line[2:3] != b" ":
        return False
    if line.startswith(b"2"):
        return must_contain in body  # success carries the document
    return body == b""  # error statuses carry no body


def main():
    docroot = tempfile.mkdtemp(prefix="c03-hunt3-")
    failures = 0
    total = 0
    try:
        script = os.path.join(docroot, "script.sh")
        with open(script, "w") as f:
            f.write("#!/bin/sh\necho hi from the script\n")
        os.chmod(script, 0o755)
        with open(os.path.join(docroot, "notes.txt.gz"), "wb") as f:
            f.write(gzip.compress(b"compressed notes\n"))

        def run(label, server, log_lines, request, check, tls=False):
            nonlocal failures, total
            before = len(log_lines)
            resp, err = ask(server, request, tls=tls)
            errors = [m for m in log_lines[before:] if "EXCEPTION" in m]
            good = check(resp) and err is None and not errors
            print("%s\n    request  %r" % (label, request))
            print("    response (%d bytes): %r" % (len(resp), resp[:300]))
            if err is not None:
                print("    transport error while reading: %r" % err)
            for m in errors:
                print("    server log: %s" % m)
            print("    -> %s" % ("ok" if good else "VIOLATION"))
            failures += not good
            total += 1

        # --- A: WAP -----------------------------------------------------
        server, log_lines = start(docroot, tls=False)
        # control: the same documents over plain HTTP are fine
        run("HTTP  executable (control)", server, log_lines,
            b"GET /script.sh HTTP/1.0\r\n\r\n",
            lambda r: http_single_response(r, b"hi from the script"))
        run("WAP   executable", server, log_lines,
            b"GET /wap/script.sh HTTP/1.0\r\n\r\n",
            lambda r: http_single_response(r, b"hi from the script"))
        run("WAP   gzip-compressed text file", server, log_lines,
            b"GET /wap/notes.txt.gz HTTP/1.0\r\n\r\n",
            lambda r: http_single_response(r, b"compressed notes"))
        server.shutdown()
        server.server_close()

        # --- B: TLS -----------------------------------------------------
        server, log_lines = start(docroot, tls=True)
        run("Gemini executable (control)", server, log_lines,
            b"gemini://localhost/script.sh\r\n",
            lambda r: gemini_ok(r, b"hi from the script"), tls=True)
        run("Gemini gzip-compressed text file", server, log_lines,
            b"gemini://localhost/notes.txt.gz\r\n",
            lambda r: gemini_ok(r, b"compressed notes"), tls=True)
        run("HTTPS  gzip-compressed text file", server, log_lines,
            b"GET /notes.txt.gz HTTP/1.0\r\n\r\n",
            lambda r: http_single_response(r, b"compressed notes"), tls=True)
        server.shutdown()
        server.server_close()
    finally:
        shutil.rmtree(docroot, ignore_errors=True)

    if failures:
        print(
            "\nC03 violated: %d of %d requests did not get exactly one complete, "
            "well-formed response." % (failures, total)
        )
        return 1
    print("\nall requests answered with one well-formed response")
    return 0


if __name__ == "__main__":
    sys.exit(main())
