#!/usr/bin/env python
"""C10 hunt, finding 1.

UMNDirHandler (the default directory handler) reads every dot-file of a
directory as a UMN link file.  The only thing that keeps it from reading the
server's OWN directory cache file is that the shipped ignorepatt happens to
contain "/\\.cache" and the shipped cachefile happens to be called
".cache.pygopherd.dir".  Change either option (both are ordinary, documented
options; the comment in the conf file even explains that one takes dot-files
out of ignorepatt to have them scanned for links) and every *fresh* scan
parses the previous generation of the cache as link-file text.  Strings that
were cached there (Gopher+ abstracts are multi-line) come back as menu entries:

  * with lifetime 0 a listing shows things that are no longer in the directory
  * with a positive lifetime a listing shows data that is older than the
    lifetime (it is taken from the expired cache entry)
  * the 1st and the 2nd listing of an unchanged directory differ

The program drives the real, unmodified pygopherd code in-process (no network)
and checks the property: every listing must equal the listing of an identical,
never-listed-before copy of the *current* directory.  Exit status 0 = property
holds, 1 = violated.
"""
import io
import os
import shutil
import sys
import tempfile
import time
import warnings

WT = os.path.dirname(os.path.dirname(os.path.dirname(os.path.abspath(__file__))))
sys.path.insert(0, WT)
os.chdir(WT)
warnings.simplefilter("ignore")

from pygopherd import initialization, logger  # noqa: E402
from pygopherd.protocols import ProtocolMultiplexer  # noqa: E402
import pygopherd.handlers.base as hbase  # noqa: E402
import pygopherd.handlers.HandlerMultiplexer as hmux  # noqa: E402

assert os.path.realpath(hbase.__file__).startswith(os.path.realpath(WT)), hbase.__file__


class FakeServer:
    server_name = "gopher.example"
    server_port = 70

    def __init__(self, config):
        self.config = config


class FakeRequestHandler:
    client_address = ("10.0.0.1", 1234)
    request = object()  # not an ssl.SSLSocket: plain connection


def make_config(root, lifetime, options):
    config = initialization.init_config("conf/pygopherd.conf")  # shipped defaults
    config.set("pygopherd", "root", root)
    config.set("handlers.dir.DirHandler", "cachetime", str(lifetime))
    for name, value in options.items():
        config.set("handlers.dir.DirHandler", name, value)
    config.set("logger", "logmethod", "none")
    logger.init(config)
    initialization.init_mimetypes(config)
    # per-process globals that remember the root / handler list
    hmux.handlers = None
    hmux.rootpath = None
    hbase.rootpath = None
    return config


def listing(config, selector):
    rfile, wfile = io.BytesIO(), io.BytesIO()
    proto = ProtocolMultiplexer.getProtocol(
        selector + "\r\n", FakeServer(config), FakeRequestHandler(), rfile, wfile, config
    )
    proto.handle()
    return wfile.getvalue()


SERVER_FILES = (".cache", ".dircache")  # what the server itself writes


def reference_listing(root, lifetime, options, selector):
    """What a listing of the *current* directory looks like: list an identical
    copy that has never been listed before (so no cache file exists in it)."""
    twin = tempfile.mkdtemp(prefix="c10-twin-")
    try:
        shutil.copytree(
            root,
            twin,
            dirs_exist_ok=True,
            ignore=lambda d, names: [n for n in names if n.startswith(SERVER_FILES)],
        )
        out = listing(make_config(twin, lifetime, options), selector)
    finally:
        shutil.rmtree(twin, ignore_errors=True)
    return out


ABSTRACT = (
    "This document explains how to write a link file, for example:\n"
    "Name=Phantom\n"
    "Type=1\n"
    "Host=other.example\n"
    "Port=70\n"
    "Path=/x\n"
    "(end of the example)\n"
)

failures = []


def scenario(title, lifetime, options, wait):
    print("=" * 72)
    print("%s   [lifetime %d, options %r]" % (title, lifetime, options))
    root = tempfile.mkdtemp(prefix="c10-root-")
    try:
        os.mkdir(root + "/d")
        with open(root + "/d/a.txt", "w") as fp:
            fp.write("hello\n")
        with open(root + "/d/a.txt.abstract", "w") as fp:
            fp.write(ABSTRACT)
        config = make_config(root, lifetime, options)

        first = listing(config, "/d")  # scans, writes the cache file
        print("1st listing (a.txt has an abstract):\n" + first.decode())

        # mutation: the abstract is deleted
        os.unlink(root + "/d/a.txt.abstract")
        t_mut = time.time()
        if wait:
            time.sleep(wait)  # let the cache entry expire for good
        expected = reference_listing(root, lifetime, options, "/d")
        config = make_config(root, lifetime, options)
        got = listing(config, "/d")
        age = time.time() - t_mut
        print("listing %.1f s after a.txt.abstract was deleted:\n%s" % (age, got.decode()))
        print("listing of an identical copy of the current directory:\n" + expected.decode())
        if got != expected:
            failures.append(title)
            print(
                "VIOLATION: the listing is not a listing of the current directory; "
                "the 'Phantom' link exists nowhere but in the server's own, "
                "expired cache file (state of %.1f s ago, lifetime %d)" % (age, lifetime)
            )
        else:
            print("ok")
    finally:
        shutil.rmtree(root, ignore_errors=True)


# (a) the cache file gets another name; everything else as shipped
scenario("cachefile renamed, lifetime 0", 0, {"cachefile": ".dircache"}, 0)
# (b) same with a positive lifetime: data older than the lifetime is used
scenario("cachefile renamed, lifetime 2 s", 2, {"cachefile": ".dircache"}, 3.2)
# (c) shipped cachefile, but dot-files are left to the UMN handler, as the
#     comment above ignorepatt in pygopherd.conf describes
scenario(
    "ignorepatt without dot-file patterns, lifetime 0",
    0,
    {"ignorepatt": r"/.cap$|~$|/gophermap$|\.abstract$"},
    0,
)

print("=" * 72)
if failures:
    print("C10 VIOLATED in %d scenario(s): %s" % (len(failures), "; ".join(failures)))
    sys.exit(1)
print("C10 held in all scenarios")
sys.exit(0)
