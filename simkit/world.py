"""Content-tree specs (JSON-serialisable) and their materialisation on disk.

A spec is a list of entries, created in order:
  {"p": "a/b.txt", "k": "file", "d": "text" | {"b64": ...} | {"rep": [text, n]},
   "x": bool (executable), "age": seconds before the world's base time}
  {"p": "d", "k": "dir"}
  {"p": "l", "k": "symlink", "to": "target"}
  {"p": "f", "k": "fifo"} / {"k": "socket"}
  {"p": "a.zip", "k": "zip", "members": [[name, text], ...]}
  {"p": "box.mbox", "k": "mbox", "n": 3}
  {"p": "md", "k": "maildir", "n": 2}
"""
import base64
import io
import os
import socket
import zipfile

from . import fs as simfs
from . import sched

BASE_AGE = 100000  # files are this much older than the start of the run by default


def _data(d):
    if isinstance(d, dict):
        if "b64" in d:
            return base64.b64decode(d["b64"])
        if "rep" in d:
            t, n = d["rep"]
            return (t.encode("utf-8", "surrogateescape")) * n
    if isinstance(d, bytes):
        return d
    return (d or "").encode("utf-8", "surrogateescape")


def mbox_bytes(n, tag="m"):
    out = []
    for i in range(1, n + 1):
        if i == 2:
            # an 8-bit MIME message: its str and bytes serialisations differ in length
            out.append(
                "From user2@example.org Sat Sep  8 02:00:00 2001\n"
                "From: user2@example.org\nTo: list@example.org\nSubject: %s message 2\n"
                "MIME-Version: 1.0\nContent-Type: text/plain; charset=utf-8\n"
                "Content-Transfer-Encoding: 8bit\n\nGr\u00fc\u00dfe aus K\u00f6ln \u2013 body of %s message 2.\n\n" % (tag, tag))
            continue
        if i == 3:
            # RFC 2047 encoded words, one of them in a character set nobody has a codec for
            out.append(
                "From user3@example.org Sat Sep  8 03:00:00 2001\n"
                "From: =?utf-8?B?w5xzZXI=?= <user3@example.org>\nTo: list@example.org\n"
                "Subject: =?x-user-defined-charset?Q?Special_offer?= =?iso-8859-1?Q?caf=E9?= %s message 3\n\n"
                "Body of %s message 3.\n\n" % (tag, tag))
            continue
        out.append(
            "From user%d@example.org Sat Sep  8 0%d:00:00 2001\n"
            "From: user%d@example.org\nTo: list@example.org\n"
            "Subject: %s message %d\nMessage-ID: <%s%d@example.org>\n\n"
            "Body of %s message %d.\nSecond line.\n\n" % (i, i % 10, i, tag, i, tag, i, tag, i))
    return "".join(out).encode("utf-8")


def build(root, spec, base=None):
    """Materialise spec under root (root itself is created)."""
    base = sched.EPOCH if base is None else base
    os.makedirs(root, exist_ok=True)
    stamps = []
    for e in spec:
        p = os.path.join(root, e["p"]) if e["p"] else root
        pb = os.fsencode(p)
        k = e["k"]
        age = e.get("age", BASE_AGE)
        parent = os.path.dirname(pb)
        if parent and not os.path.isdir(parent):
            os.makedirs(parent)
        if k == "dir":
            os.makedirs(pb, exist_ok=True)
        elif k == "file":
            with simfs.real_open(pb, "wb") as f:
                f.write(_data(e.get("d", "")))
            if e.get("x"):
                os.chmod(pb, 0o755)
            else:
                os.chmod(pb, e.get("mode", 0o644))
        elif k == "symlink":
            os.symlink(os.fsencode(e["to"]), pb)
        elif k == "fifo":
            os.mkfifo(pb)
        elif k == "socket":
            s = socket.socket(socket.AF_UNIX, socket.SOCK_STREAM)
            try:
                s.bind(pb)
            finally:
                s.close()
        elif k == "zip":
            buf = io.BytesIO()
            with zipfile.ZipFile(buf, "w") as z:
                for m in e["members"]:
                    name, text = m[0], m[1]
                    mode = m[2] if len(m) > 2 else 0o644
                    zi = zipfile.ZipInfo(name, date_time=(2001, 9, 1, 12, 0, 0))
                    zi.create_system = 3   # Unix: external_attr carries the permission bits
                    if name.endswith("/"):
                        zi.external_attr = (0o40755 << 16) | 0x10
                        z.writestr(zi, b"")
                    else:
                        zi.external_attr = (0o100000 | mode) << 16
                        z.writestr(zi, _data(text))
            with simfs.real_open(pb, "wb") as f:
                f.write(buf.getvalue())
        elif k == "mbox":
            with simfs.real_open(pb, "wb") as f:
                f.write(mbox_bytes(e.get("n", 2), e.get("tag", "m")))
        elif k == "maildir":
            for sub in ("cur", "new", "tmp"):
                os.makedirs(os.path.join(pb, os.fsencode(sub)), exist_ok=True)
            for i in range(1, e.get("n", 2) + 1):
                sub = b"cur" if i % 2 else b"new"
                fn = os.path.join(pb, sub, b"100000000%d.M1P1.sim:2,S" % i if sub == b"cur"
                                  else b"100000000%d.M1P1.sim" % i)
                with simfs.real_open(fn, "wb") as f:
                    if i == 2:
                        f.write(("From: u2@example.org\nSubject: maildir message 2\nMIME-Version: 1.0\n"
                                 "Content-Type: text/plain; charset=utf-8\nContent-Transfer-Encoding: 8bit\n\n"
                                 "Gr\u00fc\u00dfe \u2013 hello 2\n").encode("utf-8"))
                    else:
                        f.write(("From: u%d@example.org\nSubject: maildir message %d\n\nHello %d\n"
                                 % (i, i, i)).encode())
        else:
            raise ValueError(k)
        stamps.append((pb, base - age))
    # stamp everything (files first, then all directories bottom-up)
    for pb, t in stamps:
        try:
            simfs.real_utime(pb, (t, t), follow_symlinks=False)
        except (OSError, NotImplementedError):
            pass
    rb = os.fsencode(root)
    explicit = dict(stamps)
    for d, dirs, files in os.walk(rb, topdown=False):
        for n in files:
            fp = os.path.join(d, n)
            if fp not in explicit:
                try:
                    simfs.real_utime(fp, (base - BASE_AGE, base - BASE_AGE), follow_symlinks=False)
                except (OSError, NotImplementedError):
                    pass
        t = explicit.get(d, base - BASE_AGE)
        simfs.real_utime(d, (t, t))


# ------------------------------------------------------------------ generators
WORDS = ["alpha", "beta", "gamma", "delta", "notes", "report", "index", "readme",
         "data", "log", "story", "paper", "map", "list", "zeta", "omega"]
EXTS = [".txt", ".html", "", ".gmi", ".dat", ".jpg", ".txt.gz", ".md"]


def gen_name(rng, used, exts=EXTS):
    for _ in range(100):
        n = rng.choice(WORDS)
        if rng.random() < 0.4:
            n += str(rng.randrange(100))
        n += rng.choice(exts)
        if n not in used:
            used.add(n)
            return n
    raise RuntimeError("name pool exhausted")


def gen_file_entry(rng, path):
    name = os.path.basename(path)
    if name.endswith(".html"):
        title = rng.choice(["Home page", "A <b>bold</b> title", "Title  with   spaces", ""])
        d = "<html><head><title>%s</title></head><body>%s</body></html>\n" % (
            title, "x" * rng.randrange(0, 50))
        if not title and rng.random() < 0.5:
            d = "<html><body>no title here</body></html>\n"
    elif name.endswith(".jpg") or name.endswith(".dat"):
        d = {"b64": base64.b64encode(bytes(rng.randrange(256) for _ in range(rng.randrange(1, 64)))).decode()}
    elif name.endswith(".gz"):
        import gzip
        d = {"b64": base64.b64encode(gzip.compress(b"compressed text\n", mtime=0)).decode()}
    else:
        sz = rng.choice([0, 1, 5, 40, 200, 4096, 5000])
        d = {"rep": ["line of text\n", max(0, sz // 13)]} if sz > 40 else "t" * sz
    return {"p": path, "k": "file", "d": d, "age": rng.choice([BASE_AGE, 50000, 3600, 86400 * 30])}


def gen_dir(rng, prefix="", n=None, sub=True, meta=True, mail=False, zips=False):
    """A directory's entries (spec list).  prefix '' = the root itself."""
    spec = []
    used = set()
    n = rng.randrange(2, 9) if n is None else n
    pre = (prefix + "/") if prefix else ""
    names = []
    for _ in range(n):
        r = rng.random()
        if sub and r < 0.2:
            nm = gen_name(rng, used, exts=[""])
            spec.append({"p": pre + nm, "k": "dir"})
            inner = gen_name(rng, set(), exts=[".txt"])
            spec.append({"p": pre + nm + "/" + inner, "k": "file", "d": "inner\n"})
            names.append(nm)
        elif mail and r < 0.3:
            nm = gen_name(rng, used, exts=[".mbox"])
            spec.append({"p": pre + nm, "k": "mbox", "n": rng.randrange(1, 4)})
            names.append(nm)
        elif zips and r < 0.4:
            nm = gen_name(rng, used, exts=[".zip"])
            spec.append({"p": pre + nm, "k": "zip",
                         "members": [["a.txt", "zip a\n"], ["d/", ""], ["d/b.txt", "zip b\n"]]})
            names.append(nm)
        else:
            nm = gen_name(rng, used)
            spec.append(gen_file_entry(rng, pre + nm))
            names.append(nm)
    if meta:
        if rng.random() < 0.4 and names:
            nm = rng.choice(names)
            spec.append({"p": pre + nm + ".abstract", "k": "file",
                         "d": "Abstract for %s\nsecond line\n" % nm})
        if rng.random() < 0.3:
            spec.append({"p": pre + ".abstract", "k": "file", "d": "Directory abstract\n"})
        if rng.random() < 0.4 and names:
            nm = rng.choice(names)
            blocks = "Path=./%s\nName=Renamed %s\nNumb=%d\n" % (nm, nm, rng.randrange(1, 5))
            if rng.random() < 0.5:
                blocks += "\nName=Remote thing\nType=1\nPath=/remote\nHost=other.example.org\nPort=70\n"
            spec.append({"p": pre + ".names", "k": "file", "d": blocks})
        if rng.random() < 0.25 and names:
            nm = rng.choice(names)
            spec.append({"p": pre + ".cap/" + nm, "k": "file",
                         "d": "Name=Capped %s\nNumb=%d\n" % (nm, rng.randrange(1, 9))})
    return spec, names
