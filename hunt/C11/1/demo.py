#!/usr/bin/env python
"""
C11 demo: a reader that is part-way through reading a (fresh) directory cache
file while a second request truncates and rewrites that same file in place
gets a listing stitched together from two different cache files.  The reply
silently omits a file that existed the whole time (a partial listing).

Schedule (deterministic, real threads, real pygopherd code, stock config):

  T0      request #1 for /d            -> builds .cache.pygopherd.dir (f001..f120)
          f001.txt is removed, f121.txt is created (f002..f120 never change)
  T0+179  request R for /d             -> cache is fresh, R opens it and has
                                          read the first 4 blocks (16 KiB) ...
  T0+181  request W for /d             -> cache expired: W rescans, opens the
                                          cache "wb" (truncate) and rewrites it
          ... R carries on reading the same file from offset 16384.

The only instrumentation: time.time() is offset by a controllable amount, and
the file object that open() returns to thread R for the cache file is the
same kind of object open() normally returns (io.BufferedReader over
io.FileIO, buffer = st_blksize) except that the FileIO pauses after its 4th
readinto() until W has finished.  Nothing in pygopherd is changed.

The property holds (exit 0) if R's reply is a correct complete listing: the
cached one (state at T0) or the current one.  Anything else -> exit 1.
"""
import builtins
import io
import os
import shutil
import sys
import tempfile
import threading
import time

ROOT = os.path.dirname(os.path.dirname(os.path.dirname(os.path.abspath(__file__))))
sys.path.insert(0, ROOT)
os.chdir(ROOT)

import warnings  # noqa: E402

warnings.simplefilter("ignore")

from pygopherd import initialization, testutil  # noqa: E402
import pygopherd.handlers.base as hbase  # noqa: E402

PAUSE_AFTER_READS = 4  # reader is suspended after this many raw reads
CACHE = ".cache.pygopherd.dir"


def make_protocol(config, line):
    for attempt in range(50):
        try:
            return testutil.get_testing_protocol(line, config=config)
        except OSError as e:  # port 64777 busy: someone else runs tests
            if "in use" not in str(e):
                raise
            time.sleep(0.2)
    raise SystemExit("could not bind test port")


def do_request(config, line="/d\r\n"):
    proto = make_protocol(config, line)
    proto.handle()
    return proto.wfile.getvalue().decode()


def names(reply):
    return [l.split("\t")[0][1:] for l in reply.splitlines() if l and l[0] != "i"]


def main():
    testutil.get_string_logger()
    docroot = tempfile.mkdtemp(prefix="c11-")
    try:
        return run(docroot)
    finally:
        shutil.rmtree(docroot, ignore_errors=True)


def run(docroot):
    d = os.path.join(docroot, "d")
    os.mkdir(d)
    for i in range(1, 121):
        with open(os.path.join(d, "f%03d.txt" % i), "w") as f:
            f.write("x")

    config = initialization.init_config("conf/pygopherd.conf")  # stock config
    config.set("pygopherd", "root", docroot)
    hbase.rootpath = None

    # ---- controllable clock -------------------------------------------
    real_time = time.time
    offset = [0.0]
    time.time = lambda: real_time() + offset[0]

    # ---- T0: first request builds the cache ---------------------------
    listing_old = do_request(config)
    cachepath = os.path.join(d, CACHE)
    assert os.path.exists(cachepath), "cache file was not written"
    assert names(listing_old) == ["f%03d.txt" % i for i in range(1, 121)]

    # ---- the directory changes: f001 goes, f121 comes ------------------
    os.unlink(os.path.join(d, "f001.txt"))
    with open(os.path.join(d, "f121.txt"), "w") as f:
        f.write("x")
    always_there = ["f%03d.txt" % i for i in range(2, 121)]

    # ---- schedule injection for reader thread R -----------------------
    reader_paused = threading.Event()
    writer_done = threading.Event()
    reader_thread = [None]

    class PausingFileIO(io.FileIO):
        nreads = 0

        def readinto(self, b):
            n = super().readinto(b)
            self.nreads += 1
            if self.nreads == PAUSE_AFTER_READS:
                reader_paused.set()
                writer_done.wait(60)
            return n

    real_open = builtins.open

    def hooked_open(file, mode="r", *a, **kw):
        if (
            threading.current_thread() is reader_thread[0]
            and mode == "rb"
            and os.fsdecode(file).endswith("/d/" + CACHE)
        ):
            raw = PausingFileIO(file, "rb")
            return io.BufferedReader(raw, buffer_size=os.fstat(raw.fileno()).st_blksize)
        return real_open(file, mode, *a, **kw)

    builtins.open = hooked_open

    # ---- T0+179: reader R (cache still fresh) --------------------------
    offset[0] = 179.0
    proto_r = make_protocol(config, "/d\r\n")
    result = {}

    def reader():
        try:
            proto_r.handle()
            result["reply"] = proto_r.wfile.getvalue().decode()
        except BaseException as e:  # noqa
            result["reply"] = "EXCEPTION %r" % (e,)

    t = threading.Thread(target=reader)
    reader_thread[0] = t
    t.start()
    if not reader_paused.wait(30):
        writer_done.set()
        t.join()
        print("reader never read the cache file; reply:", result.get("reply", "")[:200])
        return 2

    # ---- T0+181: writer W (cache expired) while R is mid-read ----------
    offset[0] = 181.0
    listing_new = do_request(config)
    assert names(listing_new) == ["f%03d.txt" % i for i in range(2, 122)], "W wrong?"
    writer_done.set()
    t.join()

    builtins.open = real_open
    time.time = real_time

    reply = result["reply"]
    got = names(reply)
    if reply == listing_old:
        print("OK: reader got the cached listing (state at T0), complete")
        return 0
    if reply == listing_new:
        print("OK: reader got the current listing, complete")
        return 0

    print("C11 VIOLATED: reader R raced a cache rewrite and got a listing that")
    print("is neither the cached one nor the current one.")
    print("  entries in R's reply      :", len(got))
    missing = [n for n in always_there if n not in got]
    print("  files that existed all the time but are MISSING from the reply:", missing)
    print("  deleted file still listed :", "f001.txt" in got)
    print("  new file listed           :", "f121.txt" in got)
    dups = sorted({n for n in got if got.count(n) > 1})
    if dups:
        print("  duplicated entries        :", dups)
    if reply.startswith("EXCEPTION") or not got:
        print("  raw reply:", reply[:300])
    return 1


if __name__ == "__main__":
    sys.exit(main())
