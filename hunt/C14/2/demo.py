#!/usr/bin/env python
"""
C14 / finding 2: two clients that reach the same directory through two
selectors (a symbolic link to a directory) poison each other's listing
through the shared directory cache.

Content tree:
    /pub/one.txt, /pub/two.txt
    /mirror -> pub              (symbolic link to the directory)

Client A asks for "/pub", client B asks for "/mirror".  Alone, B's menu
points at /mirror/one.txt and /mirror/two.txt.  But both requests read and
write the very same file pub/.cache.pygopherd.dir, in which the *selectors of
the request that wrote it* are pickled.  So if A's request is served first, B
receives A's menu (selectors /pub/...), and if B's is served first, A receives
B's menu (selectors /mirror/...): what a client gets depends on the other
client.

Default configuration (conf/pygopherd.conf), real ThreadingTCPServer on an
ephemeral port, real sockets, nothing patched.  The order "A then B" is
enforced simply by waiting for A's answer before B connects, which is one of
the interleavings of two simultaneous clients.

Exit status: 0 if each client receives the response it receives alone.
"""
import os
import shutil
import socket
import sys
import tempfile
import threading
import warnings

ROOT = os.path.dirname(os.path.dirname(os.path.dirname(os.path.abspath(__file__))))
sys.path.insert(0, ROOT)
os.chdir(ROOT)
warnings.simplefilter("ignore")

from pygopherd import initialization, logger  # noqa: E402

tmp = tempfile.mkdtemp(prefix="c14-alias-")
docroot = os.path.join(tmp, "root")
os.makedirs(os.path.join(docroot, "pub"))
for name in ("one.txt", "two.txt"):
    with open(os.path.join(docroot, "pub", name), "w") as fp:
        fp.write(name + "\n")
os.symlink("pub", os.path.join(docroot, "mirror"))

config = initialization.init_config("conf/pygopherd.conf")  # default handlers
config.set("pygopherd", "root", docroot)
config.set("pygopherd", "servertype", "ThreadingTCPServer")
config.set("pygopherd", "interface", "127.0.0.1")
config.set("pygopherd", "port", "0")
config.set("pygopherd", "servername", "gopher.example")
config.set("pygopherd", "advertisedport", "70")
config.set("logger", "logmethod", "none")
logger.init(config)
initialization.init_exceptions(config)
initialization.init_mimetypes(config)
server = initialization.get_server(config)
address = server.server_address
threading.Thread(target=server.serve_forever, daemon=True).start()


def fetch(request: bytes) -> bytes:
    with socket.create_connection(address, timeout=60) as s:
        s.sendall(request)
        out = b""
        while True:
            data = s.recv(65536)
            if not data:
                return out
            out += data


def forget_caches():
    """Bring the server's private cache files back to the start-up state."""
    for dirpath, _, filenames in os.walk(docroot):
        for filename in filenames:
            if filename.startswith(".cache.pygopherd"):
                os.unlink(os.path.join(dirpath, filename))


A = b"/pub\r\n"
B = b"/mirror\r\n"

forget_caches()
alone_a = fetch(A)
forget_caches()
alone_b = fetch(B)

problems = []
for first, second, alone_second, label in (
    (A, B, alone_b, "A (/pub) is served first, then B (/mirror)"),
    (B, A, alone_a, "B (/mirror) is served first, then A (/pub)"),
):
    forget_caches()
    fetch(first)
    got = fetch(second)
    if got != alone_second:
        problems.append((label, second, alone_second, got))

server.shutdown()
server.server_close()
shutil.rmtree(tmp, ignore_errors=True)

if not problems:
    print("OK: each client received the menu it receives alone")
    sys.exit(0)

for label, request, alone, got in problems:
    print("interleaving: %s" % label)
    print("  request %r, served alone:" % request)
    for line in alone.decode().splitlines():
        print("      " + line.expandtabs(4))
    print("  request %r, served after the other client:" % request)
    for line in got.decode().splitlines():
        print("      " + line.expandtabs(4))
print(
    "FAIL (C14): the response to a request depends on which other client "
    "wrote the shared directory cache first"
)
sys.exit(1)
