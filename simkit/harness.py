"""Harness: loads the repository under test, builds configurations, runs the
real pygopherd server classes on top of the simulated scheduler / network /
file system, and provides the sequential reference server."""
import configparser
import copy
import errno
import gc
import io
import os
import shutil
import sys
import threading
import types

REPO = os.path.realpath(os.environ.get("VERIF_REPO_DIR", "/repo"))
if REPO not in sys.path[:1]:
    sys.path.insert(0, REPO)

from . import sched, net as simnet, fs as simfs  # noqa: E402
from .tape import Tape  # noqa: E402

SCRATCH_BASE = os.environ.get("VERIF_SCRATCH", "/dev/shm")

DEFAULT_HANDLERS = None  # shipped list (left as in conf/pygopherd.conf)
FULL_HANDLERS = (
    "[url.HTMLURLHandler, gophermap.BuckGophermapHandler, "
    "mbox.MaildirFolderHandler, mbox.MaildirMessageHandler, "
    "UMN.UMNDirHandler, tal.TALFileHandler, html.HTMLFileTitleHandler, "
    "mbox.MBoxMessageHandler, mbox.MBoxFolderHandler, "
    "pyg.PYGHandler, scriptexec.ExecHandler, ZIP.ZIPHandler, "
    "file.CompressedFileHandler, file.FileHandler, url.URLTypeRewriter]"
)
ZIP_HANDLERS = (
    "[url.HTMLURLHandler, gophermap.BuckGophermapHandler, "
    "mbox.MaildirFolderHandler, mbox.MaildirMessageHandler, "
    "UMN.UMNDirHandler, html.HTMLFileTitleHandler, "
    "mbox.MBoxMessageHandler, mbox.MBoxFolderHandler, "
    "ZIP.ZIPHandler, file.FileHandler]"
)
PLAIN_DIR_HANDLERS = (
    "[url.HTMLURLHandler, gophermap.BuckGophermapHandler, "
    "dir.DirHandler, html.HTMLFileTitleHandler, "
    "mbox.MBoxMessageHandler, mbox.MBoxFolderHandler, file.FileHandler]"
)
HANDLER_LISTS = {"default": None, "full": FULL_HANDLERS, "zip": ZIP_HANDLERS,
                 "plaindir": PLAIN_DIR_HANDLERS}

_loaded = False
_modstate = None
pyg = types.SimpleNamespace()


def load_repo():
    """Import every pygopherd / simpletal module once per process and take the
    pristine snapshot of their module-level state."""
    global _loaded, _modstate
    if _loaded:
        return
    sys.dont_write_bytecode = True
    # locks created by the code under test (also at import time) must be simulation-aware
    sched.install_sim_locks()
    import pygopherd  # noqa
    import pygopherd.initialization as initialization
    import pygopherd.server as server
    import pygopherd.logger as logger
    import pygopherd.GopherExceptions as GopherExceptions
    from pygopherd.handlers import HandlerMultiplexer
    from pygopherd.protocols import ProtocolMultiplexer
    import pygopherd.handlers.base, pygopherd.handlers.dir, pygopherd.handlers.UMN  # noqa
    import pygopherd.handlers.ZIP, pygopherd.handlers.mbox, pygopherd.handlers.tal  # noqa
    import pygopherd.handlers.pyg, pygopherd.handlers.scriptexec  # noqa
    import pygopherd.gopherentry, pygopherd.fileext  # noqa
    if not os.path.realpath(pygopherd.__file__).startswith(REPO + "/"):
        raise sched.HarnessError("pygopherd imported from %s, not %s" % (pygopherd.__file__, REPO))
    pyg.initialization = initialization
    pyg.server = server
    pyg.logger = logger
    pyg.GopherExceptions = GopherExceptions
    pyg.HandlerMultiplexer = HandlerMultiplexer
    pyg.ProtocolMultiplexer = ProtocolMultiplexer
    # stdlib-global MIME tables: initialised once per process (pygopherd does
    # not touch them after start-up)
    cfg = base_config("/nonexistent-root")
    logger.log = lambda m: None
    initialization.init_mimetypes(cfg)
    _modstate = ModState()
    _loaded = True
    import atexit
    atexit.register(cleanup_process_scratch)


def _repo_modules():
    return [m for n, m in sorted(sys.modules.items())
            if m is not None and (n == "pygopherd" or n.startswith("pygopherd.")
                                  or n == "simpletal" or n.startswith("simpletal."))]


_ATOMIC = (type(None), bool, int, float, str, bytes, tuple, frozenset)


def _is_state_value(v):
    return not isinstance(v, (types.ModuleType, type, types.FunctionType,
                              types.BuiltinFunctionType, types.MethodType))


class ModState:
    """Snapshot / restore of module-level (and class-level) data of the
    repository's modules: the 'process memory' that a fresh process would have."""

    def __init__(self):
        self.snap = self.capture()
        self.funcs = self._functions()

    @staticmethod
    def _functions():
        """Every function / method defined in the repository's modules (mutable default
        arguments and lru_caches are process state too)."""
        out = []
        seen = set()

        def add(f):
            f = getattr(f, "__func__", f)
            if isinstance(f, types.FunctionType) and id(f) not in seen:
                seen.add(id(f))
                out.append(f)
            elif hasattr(f, "cache_clear") and id(f) not in seen:
                seen.add(id(f))
                out.append(f)

        for m in _repo_modules():
            for v in list(vars(m).values()):
                if isinstance(v, type) and getattr(v, "__module__", "") == m.__name__:
                    for cv in list(vars(v).values()):
                        add(cv)
                else:
                    if getattr(v, "__module__", None) == m.__name__ or hasattr(v, "cache_clear"):
                        add(v)
        return out

    def reset_functions(self):
        """Give every function fresh copies of its mutable default arguments and empty memo caches,
        as a freshly started process would have.  Functions that appear later (a changed tree) are
        picked up lazily."""
        if not hasattr(self, "_fdefaults"):
            self._fdefaults = {}
            for f in self.funcs:
                if hasattr(f, "cache_clear"):
                    continue
                d = f.__defaults__
                kd = f.__kwdefaults__
                if (d and any(not isinstance(x, _ATOMIC) for x in d)) or \
                        (kd and any(not isinstance(x, _ATOMIC) for x in kd.values())):
                    self._fdefaults[f] = (copy.deepcopy(d), copy.deepcopy(kd))
        for f in self.funcs:
            if hasattr(f, "cache_clear"):
                try:
                    f.cache_clear()
                except Exception:
                    pass
        for f, (d, kd) in self._fdefaults.items():
            f.__defaults__ = copy.deepcopy(d)
            f.__kwdefaults__ = copy.deepcopy(kd)

    @staticmethod
    def _copy(v):
        if isinstance(v, _ATOMIC):
            return v
        try:
            return copy.deepcopy(v)
        except Exception:
            return v

    def capture(self, copy=True):
        cp = self._copy if copy else (lambda v: v)
        snap = {}
        for m in _repo_modules():
            d = {}
            for k, v in list(vars(m).items()):
                if k.startswith("__") or not _is_state_value(v):
                    continue
                if getattr(v, "__module__", None) == "typing":
                    continue
                d[k] = cp(v)
            snap[("m", m.__name__)] = (m, d)
            for k, c in list(vars(m).items()):
                if isinstance(c, type) and getattr(c, "__module__", "") == m.__name__:
                    import enum
                    if issubclass(c, enum.Enum):
                        continue   # members are constants (and cannot be reassigned)
                    cd = {}
                    for ck, cv in list(vars(c).items()):
                        if ck.startswith("__"):
                            continue
                        if not _is_state_value(cv) or isinstance(
                                cv, (staticmethod, classmethod, property)) or hasattr(cv, "__get__"):
                            continue
                        cd[ck] = cp(cv)
                    snap[("c", m.__name__, k)] = (c, cd)
        return snap

    def restore(self, snap=None, copy=True):
        cp = self._copy if copy else (lambda v: v)
        snap = snap or self.snap
        for key, (obj, d) in snap.items():
            cur = vars(obj)
            for k in list(cur.keys()):
                if k.startswith("__") or k in d:
                    continue
                v = cur[k]
                if key[0] == "m":
                    if _is_state_value(v) and getattr(v, "__module__", None) != "typing":
                        delattr(obj, k)
                else:
                    if _is_state_value(v) and not isinstance(
                            v, (staticmethod, classmethod, property)) and not hasattr(v, "__get__"):
                        delattr(obj, k)
            for k, v in d.items():
                try:
                    setattr(obj, k, cp(v))
                except (AttributeError, TypeError):
                    pass   # a read-only attribute (slots, enum members, ...): nothing a run could have changed


def base_config(root, overrides=None, handlers="default"):
    cp = configparser.ConfigParser()
    with simfs.real_open(os.path.join(REPO, "conf", "pygopherd.conf")) as f:
        cp.read_file(f)
    cp.set("pygopherd", "root", root)
    cp.set("pygopherd", "servername", "sim.example.org")
    cp.set("pygopherd", "port", "7070")
    cp.set("pygopherd", "mimetypes", os.path.join(REPO, "conf", "mime.types"))
    cp.set("pygopherd", "usechroot", "no")
    cp.set("pygopherd", "detach", "no")
    cp.remove_option("pygopherd", "pidfile")
    cp.set("logger", "logmethod", "file")
    hl = HANDLER_LISTS.get(handlers, handlers)
    if hl:
        cp.set("handlers.HandlerMultiplexer", "handlers", hl)
        if "ZIP.ZIPHandler" in hl:
            cp.set("handlers.ZIP.ZIPHandler", "enabled", "true")
        if "CompressedFileHandler" in hl:
            cp.set("handlers.file.CompressedFileHandler", "decompressors",
                   "{'gzip': '/bin/zcat'}")
    for (sec, opt), val in (overrides or {}).items():
        if val is None:
            cp.remove_option(sec, opt)
        else:
            if not cp.has_section(sec):
                cp.add_section(sec)
            cp.set(sec, opt, str(val))
    return cp


_hot_lines = None


def shared_store_lines():
    """Static scan of the repository's code objects: source lines that store to
    module globals (STORE_GLOBAL / DELETE_GLOBAL) or to an attribute of an
    object reached through a global or through another attribute
    (Class.attr = ..., self.server.attr = ...).  These are the places where
    workers can share state; the scheduler pre-empts around them."""
    global _hot_lines
    if _hot_lines is not None:
        return _hot_lines
    import dis
    out = {}

    MUTATORS = {"append", "extend", "insert", "add", "update", "setdefault", "pop", "popitem", "clear",
                "remove", "discard", "sort", "reverse", "appendleft"}

    def walk(code):
        prev = None
        globals_on_line = {}
        for ins in dis.get_instructions(code):
            hot = False
            ln = ins.positions.lineno if ins.positions else None
            if ins.opname == "LOAD_GLOBAL" and ln:
                globals_on_line[ln] = True
            if ins.opname in ("STORE_GLOBAL", "DELETE_GLOBAL"):
                hot = True
            elif ins.opname in ("STORE_ATTR", "DELETE_ATTR") and prev is not None and \
                    prev.opname in ("LOAD_ATTR", "LOAD_GLOBAL", "LOAD_NAME", "LOAD_DEREF"):
                hot = True
            elif ins.opname == "LOAD_ATTR" and prev is not None and prev.opname == "LOAD_GLOBAL" and \
                    str(ins.argval) in MUTATORS:
                hot = True      # module_global.append(...) and friends
            elif ins.opname in ("STORE_SUBSCR", "DELETE_SUBSCR") and ln and globals_on_line.get(ln):
                hot = True      # module_global[key] = value
            if hot and ln:
                out.setdefault(code.co_filename, set()).add(ln)
            prev = ins
        for c in code.co_consts:
            if isinstance(c, types.CodeType):
                walk(c)

    for m in _repo_modules():
        f = getattr(m, "__file__", None)
        if not f or not f.endswith(".py"):
            continue
        try:
            with simfs.real_open(f, "rb") as fh:
                code = compile(fh.read(), f, "exec", dont_inherit=True)
        except Exception:
            continue
        for c in code.co_consts:
            if isinstance(c, types.CodeType):
                walk(c)
    _hot_lines = out
    return out


_ENV0 = None


class _LogCapture(io.BytesIO):
    """The byte sink behind the simulated process's stdout: complete lines become log records."""

    def __init__(self, run):
        super().__init__()
        self._run = run
        self._pending = b""

    def write(self, b):
        self._pending += bytes(b)
        while b"\n" in self._pending:
            line, self._pending = self._pending.split(b"\n", 1)
            self._run._logfn(line.decode("utf-8", "surrogateescape"))
        return len(b)


class _DetNames:
    """tempfile's candidate-name generator, seeded."""
    characters = "abcdefghijklmnopqrstuvwxyz0123456789_"

    def __init__(self, seed):
        import random
        self.rng = random.Random(seed)

    def __iter__(self):
        return self

    def __next__(self):
        return "".join(self.rng.choices(self.characters, k=8))


class ForkSim:
    """Simulated fork/_exit/waitpid on top of scheduler actors."""

    def __init__(self, run):
        self.run = run
        self.sim = run.sim
        self.procs = {}
        self.next_pid = 5000001   # above any pid_max: never the pid of a real child (subprocess)
        self._tls = threading.local()
        self.violations = []
        self.mem = None
        self.block_intervals = []   # (from, to, live children) of every blocking waitpid
        self.fork_calls = 0
        self.fail_forks = set()     # ordinal numbers of fork() calls that fail with EAGAIN
        self.failed_clients = []

    def fork(self):
        sim = self.sim
        if getattr(self._tls, "child_pending", False):
            self._tls.child_pending = False
            return 0
        me = sim.me()
        if me is None or me.is_main:
            raise sched.HarnessError("fork() outside an actor")
        self.fork_calls += 1
        if self.fork_calls in self.fail_forks:
            # a transient resource limit (RLIMIT_NPROC, memory): this one fork() fails
            ca = sys._getframe(1).f_locals.get("client_address")
            self.failed_clients.append(tuple(ca) if ca else None)
            self.run.count("fork_failed")
            raise BlockingIOError(errno.EAGAIN, "Resource temporarily unavailable")
        # the child re-enters the function that called fork() with the same arguments (whatever its
        # name and signature are); its own os.fork() then returns 0
        frame = sys._getframe(1)
        loc = frame.f_locals
        code = frame.f_code
        srv = loc.get("self")
        fname = code.co_name
        argnames = list(code.co_varnames[:code.co_argcount + code.co_kwonlyargcount])
        if srv is None or not argnames or argnames[0] != "self" or not hasattr(srv, fname) or \
                any(a not in loc for a in argnames):
            raise sched.HarnessError("fork() from a frame the simulator cannot re-enter: %s" % fname)
        fn = getattr(srv, fname)

        def dup(v):
            if isinstance(v, simnet.SimSocket):
                return v.clone_for_child()
            return v

        args = tuple(dup(loc[a]) for a in argnames[1:])
        pid = self.next_pid
        self.next_pid += 1
        info = {"status": None, "reaped": False, "returned": False, "actor": None,
                "parent": me.proc}
        self.procs[pid] = info
        self.run.net.fork_refs(me.proc, pid)
        if self.mem is not None:
            self.mem.fork(me.proc, pid)
        tls = self._tls

        def child():
            tls.child_pending = True
            try:
                fn(*args)
            except sched.SimProcessExit as e:
                info["status"] = e.status
                return
            info["returned"] = True
            info["status"] = 0

        def on_exit(actor):
            if info["status"] is None:
                info["status"] = 137 if actor.crashed else (70 if actor.exc else 0)
                if actor.exc is not None:
                    info["exc"] = actor.exc
            info["exited"] = True
            self.run.net.drop_proc(pid)
            if self.mem is not None:
                self.mem.drop(pid)

        t = sched.SimThread(target=child)
        t._sim = sim
        t._sim_proc = pid
        # register before start so on_exit is in place
        orig_register = sim._register

        def reg(thread, proc=0):
            a = orig_register(thread, proc)
            a.on_exit.append(on_exit)
            info["actor"] = a
            return a

        sim._register = reg
        try:
            t.start()
        finally:
            sim._register = orig_register
        sim.note("fork", pid)
        self.run.count("fork")
        return pid

    def _exit(self, status=0):
        raise sched.SimProcessExit(status)

    def getpid(self):
        me = self.sim.me()
        p = me.proc if me is not None else 0
        return p or 4000

    def _exited(self, info):
        return info.get("exited", False)

    def waitpid(self, pid, flags):
        sim = self.sim
        sim.yield_point("waitpid")
        me = sim.me()
        myproc = me.proc if me is not None else 0

        def mine():
            return {p: i for p, i in self.procs.items()
                    if i["parent"] == myproc and not i["reaped"]}

        if pid == -1 or pid == 0:
            while True:
                kids = mine()
                if not kids:
                    raise ChildProcessError(10, "No child processes")
                done = sorted(p for p, i in kids.items() if self._exited(i))
                if done:
                    p = done[0]
                    self.procs[p]["reaped"] = True
                    self.run.count("reaped")
                    return p, (self.procs[p]["status"] & 0xFF) << 8
                if flags & os.WNOHANG:
                    return 0, 0
                self.run.count("waitpid_blocked")
                t_from = sim.now
                nk = len(kids)
                try:
                    sim.block(lambda: any(self._exited(i) for i in mine().values()), None, "waitpid")
                finally:
                    self.block_intervals.append((t_from, sim.now, nk))
        info = self.procs.get(pid)
        if info is None and pid > 0:
            # not a simulated process: a real child started by subprocess (zcat, a script) - the real call decides
            # (still running / exit status / not a child of ours)
            return self._saved[2](pid, flags)
        if info is None or info["reaped"] or info["parent"] != myproc:
            raise ChildProcessError(10, "No child processes")
        if not self._exited(info):
            if flags & os.WNOHANG:
                return 0, 0
            self.run.count("waitpid_blocked")
            sim.block(lambda: self._exited(info), None, "waitpid")
        info["reaped"] = True
        self.run.count("reaped")
        return pid, (info["status"] & 0xFF) << 8

    def install(self):
        self._saved = (os.fork, os._exit, os.waitpid, os.getpid)
        os.fork = self.fork
        os._exit = self._exit
        os.waitpid = self.waitpid
        os.getpid = self.getpid

    def uninstall(self):
        os.fork, os._exit, os.waitpid, os.getpid = self._saved

    def zombies(self):
        return sorted(p for p, i in self.procs.items() if self._exited(i) and not i["reaped"])

    def running(self):
        return sorted(p for p, i in self.procs.items() if not self._exited(i))


class ProcMem:
    """Private copy of the repository's module-level (and class-level) data per
    simulated process, swapped in and out at context switches between actors of
    different processes: a lazy table filled by one child is invisible to its
    siblings and to the parent, as with a real fork."""

    def __init__(self, run):
        self.run = run
        self.ms = _modstate
        self.images = {}
        self.swaps = 0

    def fork(self, parent, child):
        # the forking parent is running: its memory is what is installed now
        self.images[child] = self.ms.capture(copy=True)

    def drop(self, pid):
        self.images.pop(pid, None)

    def on_switch(self, old, new):
        op = old.proc if old is not None else 0
        np_ = new.proc if new is not None else 0
        if op == np_:
            return
        self.images[op] = self.ms.capture(copy=False)
        img = self.images.get(np_)
        if img is not None:
            self.ms.restore(img, copy=False)
            self.swaps += 1


class SutHang(Exception):
    """The system under test never came back: an infinite loop without any seam
    call (cpu-hang) or more scheduler steps than the cap (step-cap)."""

    def __init__(self, reason, run):
        super().__init__(reason)
        self.reason = reason
        self.where = getattr(run.sim, "hung_where", "")


class SimRun:
    """One simulated execution of a real pygopherd server."""

    def __init__(self, root, tape=None, seed=0, *, servertype="ThreadingTCPServer",
                 tls=False, conf=None, handlers="default", preempt_p=0.0, sticky=0.0,
                 step_cap=200000, timeout=60, fsroot=None, start=sched.EPOCH,
                 procmem=False, policy="random", hot=None, cp_base=0.0, trace_hot=False):
        load_repo()
        self.root = root
        self.tape = tape or Tape(seed)
        self.seed = seed
        self.servertype = servertype
        self.tls = tls
        self.conf = dict(conf or {})
        self.handlers = handlers
        self.timeout = timeout
        self.fsroot = fsroot or root
        self.sim = sched.Sim(self.tape, preempt_p=preempt_p, sticky=sticky,
                             step_cap=step_cap,
                             trace_prefixes=(REPO + "/pygopherd/", REPO + "/simpletal/"),
                             start=start, policy=policy, hot=hot, cp_base=cp_base)
        if trace_hot:
            self.sim.hot_lines = shared_store_lines()
        self.net = simnet.Net(self.sim)
        self.fs = simfs.FsSeam(self.sim, self.fsroot, run_seed=seed)
        self.log = []
        self.stderr = io.StringIO()
        self.handle_errors = []
        self.accept_loop_exc = None
        self.counters = {}
        self.tls_plaintext = []     # (connection id, bytes) a child process wrote below the TLS session
        self.forksim = None
        self.procmem = procmem
        self.server = None
        self.stop = False
        self.poll = 0
        self._installed = False
        self.subprocess_calls = 0
        self.protocol_choices = []
        self.protocol_secure = []
        self._real_getprotocol = None

    tls_plaintext = ()

    def count(self, k, n=1):
        self.counters[k] = self.counters.get(k, 0) + n

    # ------------------------------------------------------------------
    def __enter__(self):
        # cyclic GC runs at allocation-count-dependent moments; request objects
        # (protocol <-> handler cycles) own files whose __del__ closes them, so
        # automatic collection would be a hidden source of nondeterminism.
        gc.collect()
        self._gc_was = gc.isenabled()
        gc.disable()
        # the server's working directory is inside the scratch tree, so that a defect which
        # forms paths relative to the cwd cannot touch anything else on the machine
        self._old_cwd = os.getcwd()
        try:
            os.chdir(os.path.dirname(self.root) if os.path.isdir(os.path.dirname(self.root)) else self.root)
        except OSError:
            pass
        _modstate.restore()
        _modstate.reset_functions()
        # tempfile draws its names from an OS-seeded generator: a change that starts to use it
        # must still give one execution per seed
        # the process environment is process-global state as well (a change may start to write to it)
        global _ENV0
        if _ENV0 is None:
            _ENV0 = dict(os.environ)
        if dict(os.environ) != _ENV0:
            os.environ.clear()
            os.environ.update(_ENV0)
        # the simulator's own interpreter runs with PYTHONDONTWRITEBYTECODE (nothing may be written into
        # /repo); the server it simulates runs, like bin/pygopherd, with the default: modules it loads at
        # request time (PYG documents) are byte-compiled next to their source, i.e. inside the served tree
        self._saved_dwb = sys.dont_write_bytecode
        sys.dont_write_bytecode = False
        import tempfile
        self._saved_tmpnames = tempfile._name_sequence
        tempfile._name_sequence = _DetNames(self.seed)
        self.sim.install()
        self.fs.install()
        self._installed = True
        self._saved_stderr = sys.stderr
        sys.stderr = self.stderr
        self._saved_stdout = sys.stdout
        sys.stdout = io.TextIOWrapper(_LogCapture(self), encoding="utf-8", errors="strict", line_buffering=True)
        try:
            self._start_server()
        except BaseException:
            self.__exit__(None, None, None)
            raise
        return self

    def _logfn(self, msg):
        self.log.append(msg)
        self.sim.note("log", msg.replace(self.root, "<ROOT>"))

    def _start_server(self):
        over = dict(self.conf)
        over.setdefault(("pygopherd", "servertype"), self.servertype)
        if self.timeout is None:
            over.setdefault(("pygopherd", "timeout"), None)
        else:
            over.setdefault(("pygopherd", "timeout"), str(self.timeout))
        # the repository's own logging code runs for real, towards a strict UTF-8 stdout (as a terminal or a
        # service manager gives it) or a captured syslog(3); only the sink is ours
        self.logmethod = over.get(("logger", "logmethod")) or ("syslog" if self.seed % 4 == 3 else "file")
        over.setdefault(("logger", "logmethod"), self.logmethod)
        self.config = base_config(self.root, over, self.handlers)
        if self.logmethod == "syslog":
            import syslog
            self._saved_syslog = (syslog.syslog, syslog.openlog)
            syslog.openlog = lambda *a, **k: None
            syslog.syslog = lambda *a: self._logfn(a[-1])
        pyg.logger.init(self.config)
        # signal dispositions as the program sets them up (recorded, never installed): bin/pygopherd's
        # start-up installs its handlers through initialization.init_signal_handlers()
        import signal as _signal
        self.sigdisp = {int(_signal.SIGPIPE): _signal.SIG_IGN}     # what CPython starts with
        self._saved_signal = _signal.signal
        _signal.signal = lambda signum, handler: self.sigdisp.__setitem__(int(signum), handler)
        try:
            pyg.initialization.init_signal_handlers()
        finally:
            _signal.signal = self._saved_signal
        self.killed_by_sigpipe = 0

        def on_epipe():
            if self.sigdisp.get(int(_signal.SIGPIPE)) == _signal.SIG_DFL:
                self.killed_by_sigpipe += 1
                self.sim.note("killed-by-SIGPIPE")
                raise sched.SimProcessExit(128 + int(_signal.SIGPIPE))
        self.net.on_epipe = on_epipe
        pyg.initialization.init_exceptions(self.config)
        ctx = simnet.FakeTLSContext(self.net) if self.tls else None
        self.tlsctx = ctx
        cls = getattr(pyg.server, self.servertype)
        port = self.config.getint("pygopherd", "port")
        server = cls(self.config, ("", port), pyg.server.GopherRequestHandler,
                     context=ctx, bind_and_activate=False)
        try:
            server.socket.close()
        except Exception:
            pass
        server.socket = self.net.listener
        server.server_bind()
        server.server_activate()
        orig_he = server.handle_error

        def handle_error(request, client_address):
            self.handle_errors.append((client_address, sys.exc_info()[0].__name__,
                                       str(sys.exc_info()[1])))
            self.sim.note("handle_error", sys.exc_info()[0].__name__)
            return orig_he(request, client_address)

        server.handle_error = handle_error
        self.server = server
        if self.servertype == "ForkingTCPServer":
            self.forksim = ForkSim(self)
            if self.procmem:
                self.forksim.mem = ProcMem(self)
                self.sim.on_switch = self.forksim.mem.on_switch
            self.forksim.install()
        self._patch_subprocess()
        self._patch_getprotocol()
        self.accept_actor = self.sim.spawn(self._accept_loop, "accept")

    def _patch_getprotocol(self):
        """Observe (from outside) which protocol class answers each connection."""
        pm = pyg.ProtocolMultiplexer
        self._real_getprotocol = pm.getProtocol
        run = self

        def getProtocol(request, server, requesthandler, rfile, wfile, config):
            addr = getattr(requesthandler, "client_address", None)
            try:
                p = run._real_getprotocol(request, server, requesthandler, rfile, wfile, config)
            except BaseException as e:
                if not isinstance(e, (sched.SimAbort, sched.SimCrash, sched.SimProcessExit)):
                    run.protocol_choices.append((addr, "EXC:" + type(e).__name__, request))
                    run.protocol_secure.append(None)
                raise
            run.protocol_choices.append((addr, type(p).__name__ if p is not None else None, request))
            run.protocol_secure.append(getattr(p, "secure", None))
            return p

        pm.getProtocol = getProtocol

    def _patch_subprocess(self):
        import subprocess
        import socketserver
        self._real_subprocess_run = subprocess.run
        run = self

        def sim_run(args, **kw):
            out = kw.get("stdout")
            if isinstance(out, socketserver._SocketWriter) and isinstance(
                    getattr(out, "_sock", None), simnet.SimSocket):
                kw["stdout"] = subprocess.PIPE
                stdin = kw.get("stdin")
                if isinstance(stdin, simfs.SimFile):
                    kw["stdin"] = stdin._f
                run.subprocess_calls += 1
                run.sim.yield_point("subprocess")
                r = run._real_subprocess_run(args, **kw)
                if r.stdout and isinstance(out._sock, simnet.SimSSLSocket):
                    # the child inherits the descriptor of the raw socket: its output goes out BELOW the
                    # TLS session (the client's TLS layer reads it as a broken record)
                    run.tls_plaintext.append((out._sock._conn.id, len(r.stdout)))
                    run.count("child_wrote_clear_text_under_tls")
                if r.stdout:
                    # the child writes to the client socket by itself: when the connection is dead the
                    # CHILD gets the error (SIGPIPE / EPIPE); the server process never sees it
                    try:
                        out.write(r.stdout)
                    except OSError:
                        run.count("child_write_failed_silently")
                return r
            stdin = kw.get("stdin")
            if isinstance(stdin, simfs.SimFile):
                kw["stdin"] = stdin._f
            run.subprocess_calls += 1
            run.sim.yield_point("subprocess")
            return run._real_subprocess_run(args, **kw)

        subprocess.run = sim_run

    def _accept_loop(self):
        sim = self.sim
        srv = self.server
        try:
            while True:
                sim.block(lambda: bool(self.net.accept_q) or self.stop or self.poll > 0,
                          None, "accept-wait")
                if self.stop and not self.net.accept_q:
                    break
                if not self.net.accept_q:
                    # serve_forever's periodic wake-up (poll_interval) without a request
                    self.poll -= 1
                    srv.service_actions()
                    continue
                srv._handle_request_noblock()
                srv.service_actions()
                self.count("accept_iterations")
        except (sched.SimAbort, sched.SimCrash):
            raise
        except BaseException as e:
            self.accept_loop_exc = e
            sim.note("accept-loop-died", type(e).__name__)

    def __exit__(self, et, ev, tb):
        try:
            self.sim.teardown()
        finally:
            if self.forksim is not None:
                self.forksim.uninstall()
            if self._real_getprotocol is not None:
                pyg.ProtocolMultiplexer.getProtocol = self._real_getprotocol
            if getattr(self, "_real_subprocess_run", None) is not None:
                import subprocess
                subprocess.run = self._real_subprocess_run
            self.fs.uninstall()
            self.sim.uninstall()
            if hasattr(self, "_saved_dwb"):
                sys.dont_write_bytecode = self._saved_dwb
            if hasattr(self, "_saved_tmpnames"):
                import tempfile
                tempfile._name_sequence = self._saved_tmpnames
            if _ENV0 is not None and dict(os.environ) != _ENV0:
                os.environ.clear()
                os.environ.update(_ENV0)
            sys.stderr = self._saved_stderr
            if hasattr(self, "_saved_stdout"):
                sys.stdout = self._saved_stdout
            if getattr(self, "_saved_syslog", None):
                import syslog
                syslog.syslog, syslog.openlog = self._saved_syslog
                self._saved_syslog = None
            try:
                os.chdir(self._old_cwd)
            except (OSError, AttributeError):
                pass
            gc.collect()
            if getattr(self, "_gc_was", True):
                gc.enable()
            try:
                if self.server is not None:
                    self.server.socket = None
            except Exception:
                pass
        return False

    # ------------------------------------------------------------ clients
    def client(self, data, *, tls=False, segments=None, delays=None, half_close=True,
               at=0.0, sndbuf=None, drain=None, reset_after=None, send_fault=None,
               addr=None, hello=None, pump=None, tail=None):
        """Schedule a client: connect at `at`, send `data` (optionally split at
        the given cut offsets, with a delay before each segment), then
        half-close.  Returns the Conn (available immediately)."""
        sim = self.sim
        holder = {}
        payload = bytes(data)
        if tls:
            payload = (hello if hello is not None else simnet.fake_client_hello()) + payload
        cuts = sorted(set(c for c in (segments or []) if 0 < c < len(payload)))
        parts = []
        pos = 0
        for c in cuts + [len(payload)]:
            parts.append(payload[pos:c])
            pos = c
        dl = list(delays or [])

        conn = self.net.connect(addr)
        self.net.accept_q.remove(conn)
        conn.tls = tls
        conn.sndbuf = sndbuf
        conn.send_fault = send_fault
        # a client's own steps are ordered (TCP is a byte stream): each step
        # schedules the next one, so FIN can never overtake data
        steps = [(at, lambda: self.net.accept_q.append(conn), "connect%d" % conn.id)]
        for i, part in enumerate(parts):
            d = dl[i] if i < len(dl) else 0.0
            steps.append((d, (lambda p=part: conn.client_send(p)), "send%d.%d" % (conn.id, i)))
        if reset_after is not None:
            steps.append((reset_after, conn.client_reset, "reset%d" % conn.id))
        elif half_close:
            steps.append((0.0, conn.client_shut_wr, "fin%d" % conn.id))
        if tail:
            # further (delay, bytes-or-None) steps after the main payload; None = FIN
            steps = [st for st in steps if not st[2].startswith("fin")]
            for j, (d, data2) in enumerate(tail):
                if data2 is None:
                    steps.append((d, conn.client_shut_wr, "fin%d" % conn.id))
                elif data2 == "RESET":
                    steps.append((d, conn.client_reset, "reset%d" % conn.id))
                else:
                    steps.append((d, (lambda p=data2: conn.client_send(p)), "tail%d.%d" % (conn.id, j)))
        self._chain(steps, 0)
        if pump:
            interval, nbytes = pump
            state = {"n": 0}
            t_stop = sim.now + at + 900.0

            def pump_fire():
                conn.client_drain(nbytes)
                state["n"] += 1
                if state["n"] < 200000 and sim.now < t_stop and not conn.reset \
                        and not (conn.server_closed and conn.in_flight == 0):
                    sim.at(interval, pump_fire, "pump%d" % conn.id)

            sim.at(at + interval, pump_fire, "pump%d" % conn.id)
        if drain:
            # drain: list of (delay_after_previous, nbytes or None)
            dsteps = [(at, lambda: None, "drain-start%d" % conn.id)]
            for d, n in drain:
                dsteps.append((d, (lambda n=n: conn.client_drain(n)), "drain%d" % conn.id))
            self._chain(dsteps, 0)
        return conn

    def _chain(self, steps, i):
        if i >= len(steps):
            return
        delay, fn, label = steps[i]

        def fire():
            fn()
            self._chain(steps, i + 1)

        self.sim.at(delay, fire, label)

    def go(self):
        st = self.sim.run()
        if st in ("cpu-hang", "step-cap"):
            raise SutHang(st, self)
        return st

    def collect(self):
        """Deterministic stand-in for the cyclic GC: driver only, while idle."""
        gc.collect()

    def advance(self, dt):
        """Jump the simulated clock forward (driver only, while idle)."""
        self.sim.now += dt
        self.sim.note("advance", dt)

    def shutdown(self):
        self.stop = True
        if self.sim.aborted:
            return self.sim.aborted
        return self.sim.run()

    def norm(self, s):
        if isinstance(s, bytes):
            return s.replace(os.fsencode(self.root), b"<ROOT>")
        return s.replace(self.root, "<ROOT>")

    def exception_records(self):
        out = []
        for line in self.log:
            if " EXCEPTION " in line:
                head, rest = line.split(" EXCEPTION ", 1)
                cls = rest.split(":", 1)[0]
                out.append((head, cls, line))
        return out


# ------------------------------------------------------------------ scratch
class Scratch:
    """Per-run scratch directory on tmpfs, removed on exit."""

    _n = 0

    def __init__(self, tag="run"):
        Scratch._n += 1
        # fixed-length path: the configured root is pickled into every cache
        # file (GopherEntry.config), so its length must not vary between runs
        self.path = os.path.join(SCRATCH_BASE, "pgsim-%07d" % os.getpid(),
                                 "%s-%06d" % (tag[:3].ljust(3, "x"), Scratch._n))

    def __enter__(self):
        shutil.rmtree(self.path, ignore_errors=True)
        os.makedirs(self.path)
        return self.path

    def __exit__(self, *a):
        shutil.rmtree(self.path, ignore_errors=True)
        return False


def cleanup_process_scratch():
    shutil.rmtree(os.path.join(SCRATCH_BASE, "pgsim-%07d" % os.getpid()), ignore_errors=True)


def copy_tree(src, dst):
    shutil.copytree(src, dst, symlinks=True, copy_function=shutil.copy2)
    # copytree copies directory times last (copystat); nothing more to do


def one_shot(root, request, *, tls=False, conf=None, handlers="default", seed=0,
             servertype="ThreadingTCPServer", start=sched.EPOCH, timeout=60,
             half_close=True, natural_order=False, epoch=0, server_tls=None):
    """Reference server: the same pygopherd code, one request, alone, fresh
    module state, no faults.  Returns (response bytes, SimRun)."""
    run = SimRun(root, Tape(replay=[]), seed, servertype=servertype,
                 tls=tls if server_tls is None else server_tls, conf=conf,
                 handlers=handlers, start=start, timeout=timeout)
    run.fs.natural_order = natural_order
    run.fs.epoch = epoch
    with run:
        c = run.client(request, tls=tls, half_close=half_close)
        run.go()
        run.shutdown()
    return bytes(c.s2c), run
