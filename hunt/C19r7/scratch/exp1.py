import os, sys, tempfile, itertools, subprocess, json
sys.path.insert(0, "/tmp/wt7-C19"); os.chdir("/tmp/wt7-C19")

CHILD = r'''
import os, sys, json
sys.path.insert(0, "/tmp/wt7-C19"); os.chdir("/tmp/wt7-C19")
from pygopherd import initialization
conf = sys.argv[1]
try:
    s = initialization.initialize(conf)
except BaseException as e:
    print(json.dumps({"abort": repr(e)})); sys.exit(0)
st = os.stat("/")
print(json.dumps({"resuid": os.getresuid(), "resgid": os.getresgid(), "groups": os.getgroups(),
  "cwd": os.getcwd(), "rootino": st.st_ino, "root": s.config.get("pygopherd","root")}))
'''
base = open("conf/pygopherd.conf").read()
def run(chroot, su, sg, extra=""):
    d = tempfile.mkdtemp()
    os.chmod(d, 0o755)
    conf = base.replace("usechroot = yes", "usechroot = %s" % ("yes" if chroot else "no"))
    conf = conf.replace("root = /var/gopher", "root = %s" % d)
    conf = conf.replace("port = 70", "port = 0")
    conf = conf.replace("logmethod = syslog", "logmethod = none")
    if su: conf = conf.replace("#setuid = gopher", "setuid = %s" % su)
    if sg: conf = conf.replace("#setgid = gopher", "setgid = %s" % sg)
    conf = conf.replace("pidfile = /var/run/pygopherd/pygopherd.pid","")
    p = os.path.join(tempfile.mkdtemp(), "c.conf"); open(p,"w").write(conf)
    r = subprocess.run([sys.executable, "-c", CHILD, p], capture_output=True, text=True, env=dict(os.environ, PYTHONWARNINGS="ignore"),
        preexec_fn=lambda: os.setgroups([1,2,3]))
    print(chroot, su, sg, os.stat(d).st_ino, r.stdout.strip()[-300:], r.stderr.strip()[-300:])
for c, u, g in itertools.product([0,1],[None,"nobody"],[None,"nogroup"]):
    run(c,u,g)
