#!/usr/bin/env python
"""C20 / connection reset, on real sockets, STILL logged as another error.

Gopher, Gopher+, HTTP and WAP (protocols/base.py:103-105, gopherp.py:67-69,
http.py:95-97) catch the IOError of the failed client write, log it, and then
answer the *same dead client* with an error page.  That second write fails
too, but not with the same error:

  * plaintext: the kernel reports ECONNRESET once and EPIPE from then on, so
    the reset is logged as ConnectionResetError and then again as
    BrokenPipeError;
  * TLS: the first failure is ssl.SSLEOFError (or ConnectionResetError); the
    error page is a different buffer than the one OpenSSL wants retried, so the
    second one is "SSLError: [SSL: BAD_LENGTH] bad length" - an error that has
    nothing to do with what happened to the connection.

Spartan and Gemini do not answer a dead client and log exactly one class: they
are the controls.

The demo runs the real ThreadingTCPServer on 127.0.0.1 (ephemeral port); a
client asks for a big document / a big menu, reads a little, and resets the
connection (SO_LINGER 0 + close).  For every connection it collects the
EXCEPTION lines logged with the client's address and requires that they all
carry one and the same error class: the one of the failure.
"""
import atexit
import io
import os
import shutil
import socket
import ssl
import struct
import sys
import tempfile
import threading
import time
import warnings

ROOT = os.path.dirname(os.path.dirname(os.path.dirname(os.path.abspath(__file__))))
sys.path.insert(0, ROOT)
os.chdir(ROOT)
warnings.simplefilter("ignore")

import pygopherd  # noqa: E402

assert os.path.abspath(pygopherd.__file__).startswith(ROOT), pygopherd.__file__
from pygopherd import initialization, testutil  # noqa: E402
from pygopherd.server import GopherRequestHandler, ThreadingTCPServer  # noqa: E402

# server.py prints tracebacks of unexpected I/O errors to stderr: keep them out
# of the report
sys.stderr = io.StringIO()

tmp = tempfile.mkdtemp(prefix="c20-")
atexit.register(shutil.rmtree, tmp, True)
with open(os.path.join(tmp, "big.bin"), "wb") as f:
    f.write(b"x" * (64 << 20))
with open(os.path.join(tmp, "big.txt"), "wb") as f:
    f.write(b"line\n" * (12 << 20))
os.mkdir(os.path.join(tmp, "menu"))
with open(os.path.join(tmp, "menu", "gophermap"), "wb") as f:
    f.write((b"an information line of a very long menu " * 4 + b"\n") * 60000)

config = testutil.get_config()
config.set("pygopherd", "root", tmp)
config.set("pygopherd", "timeout", "20")
logfp = testutil.get_string_logger()
initialization.init_mimetypes(config)

context = ssl.create_default_context(ssl.Purpose.CLIENT_AUTH)
context.load_cert_chain("testdata/demo.crt", "testdata/demo.key")

server = ThreadingTCPServer(
    config, ("127.0.0.1", 0), GopherRequestHandler, context=context
)
server.daemon_threads = True
threading.Thread(target=server.serve_forever, daemon=True).start()


def open_documents():
    out = []
    for fd in os.listdir("/proc/self/fd"):
        try:
            target = os.readlink("/proc/self/fd/" + fd)
        except OSError:
            continue
        if target.startswith(tmp):
            out.append(target)
    return out


def scenario(name, tls, request):
    base_threads = threading.active_count()
    logstart = len(logfp.getvalue())

    sock = socket.socket()
    sock.setsockopt(socket.SOL_SOCKET, socket.SO_RCVBUF, 4096)
    sock.connect(server.server_address)
    if tls:
        cctx = ssl.SSLContext(ssl.PROTOCOL_TLS_CLIENT)
        cctx.check_hostname = False
        cctx.verify_mode = ssl.CERT_NONE
        sock = cctx.wrap_socket(sock)
    sock.sendall(request)
    sock.recv(64)  # the response has started
    time.sleep(0.5)  # the server now blocks in the middle of it
    # Reset the connection.
    sock.setsockopt(socket.SOL_SOCKET, socket.SO_LINGER, struct.pack("ii", 1, 0))
    sock.close()

    deadline = time.time() + 15
    while time.time() < deadline and threading.active_count() > base_threads:
        time.sleep(0.1)
    time.sleep(0.2)
    log = logfp.getvalue()[logstart:]
    logged = [
        line.split("EXCEPTION ", 1)[1]
        for line in log.splitlines()
        if line.startswith("127.0.0.1 ") and "EXCEPTION " in line
    ]
    classes = []
    for line in logged:
        cls = line.split(":", 1)[0]
        if cls not in classes:
            classes.append(cls)

    problems = []
    if threading.active_count() > base_threads:
        problems.append("the connection's handler is still running")
    if open_documents():
        problems.append("still open: %s" % open_documents())
    if not logged:
        problems.append("the failure was not logged with the client's address")
    if len(classes) > 1:
        problems.append(
            "the one failure was logged under %d error classes: the failure's "
            "own %s, and also %s" % (len(classes), classes[0], ", ".join(classes[1:]))
        )
    print("%-26s %s" % (name, "ok: " + logged[0] if not problems else "VIOLATION"))
    for p in problems:
        print("    " + p)
    if problems:
        for line in logged:
            print("      logged: " + line)
    return not problems


results = [
    scenario("Spartan document (control)", False, b"localhost /big.bin 0\r\n"),
    scenario("Gemini document (control)", True, b"gemini://localhost/big.txt\r\n"),
    scenario("gopher document", False, b"/big.bin\r\n"),
    scenario("gopher menu", False, b"/menu\r\n"),
    scenario("gopher+ document", False, b"/big.bin\t+\r\n"),
    scenario("gopher+ menu", False, b"/menu\t$\r\n"),
    scenario("HTTP document", False, b"GET /big.bin HTTP/1.0\r\n\r\n"),
    scenario("HTTP menu", False, b"GET /menu HTTP/1.0\r\n\r\n"),
    scenario("WAP menu", False, b"GET /wap/menu HTTP/1.0\r\n\r\n"),
    scenario("TLS gopher document", True, b"/big.bin\r\n"),
    scenario("TLS gopher+ document", True, b"/big.bin\t+\r\n"),
    scenario("HTTPS document", True, b"GET /big.bin HTTP/1.0\r\n\r\n"),
]
server.shutdown()
if all(results):
    print("C20 holds: every reset was logged under its own error class only")
    sys.exit(0)
print(
    "C20 violated: %d of %d reset connections were also logged as another error"
    % (results.count(False), len(results))
)
sys.exit(1)
