#!/usr/bin/env python
"""
C02 hunt, finding 2: the Spartan protocol claims request lines that do not
have the documented Spartan request shape
    request-line = host SP path-absolute SP content-length CRLF
(gemini://spartan.mozz.us/specification.gmi, referenced from
pygopherd/protocols/spartan.py), so ordinary gopher selectors made of three
space-separated words whose last word is a number -- including selectors that
the server itself puts in its own gopher menus -- are answered by Spartan
instead of by gopher.

Run as:  cd /tmp/wt4-C02 && /venv/bin/python HUNT/2/demo.py
Exits 0 if lines that are not Spartan requests are answered by the first
protocol of the shipped list whose shape they do match (gopher0), non-zero
otherwise.
"""
import io
import os
import shutil
import sys
import tempfile
import warnings

ROOT = os.path.dirname(os.path.dirname(os.path.dirname(os.path.abspath(__file__))))
sys.path.insert(0, ROOT)
os.chdir(ROOT)
warnings.simplefilter("ignore")

from pygopherd import initialization, testutil  # noqa: E402
from pygopherd.protocols import ProtocolMultiplexer  # noqa: E402


class KeepOpen(io.BytesIO):
    def close(self):  # keep the bytes readable after finish()
        pass


def make_config(docroot):
    config = initialization.init_config("conf/pygopherd.conf")  # shipped config
    config.set("pygopherd", "root", docroot)
    config.set("pygopherd", "port", "0")
    config.set("pygopherd", "servertype", "ThreadingTCPServer")
    config.set("logger", "logmethod", "none")
    initialization.init_logger(config, "conf/pygopherd.conf")
    initialization.init_exceptions(config)
    initialization.init_mimetypes(config)
    return config


def serve(config, server, raw, tls=False):
    """Feed the bytes `raw` to the real GopherRequestHandler.handle();
    return (name of the protocol class that answered, response bytes)."""
    rfile, wfile = KeepOpen(raw), KeepOpen()
    cls = testutil.MockSSLRequest if tls else testutil.MockRequest
    handler = testutil.MockRequestHandler(
        cls(rfile, wfile), ("10.77.77.77", "7777"), server
    )
    answered = []
    real = ProtocolMultiplexer.getProtocol

    def spy(*a, **kw):
        p = real(*a, **kw)
        answered.append(p)
        return p

    ProtocolMultiplexer.getProtocol = spy
    try:
        handler.handle()
    finally:
        ProtocolMultiplexer.getProtocol = real
    return answered[0], wfile.getvalue()



import re

from pygopherd.protocols.rfc1436 import GopherProtocol  # noqa: E402
from pygopherd.protocols.spartan import SpartanProtocol  # noqa: E402

# RFC 3986 reg-name / IPv4 / IP-literal characters: never a "/" or a space.
HOST_RE = re.compile(r"^(\[[0-9A-Fa-f:.]+\]|[A-Za-z0-9._~!$&'()*+,;=%-]+)$")


def is_spartan_shape(line: bytes) -> bool:
    """host SP path-absolute SP content-length CRLF"""
    m = re.match(rb"^([^ ]+) ([^ ]+) ([0-9]+)\r?\n$", line)
    if not m:
        return False
    try:
        host, path = m.group(1).decode("ascii"), m.group(2).decode("ascii")
    except UnicodeDecodeError:
        return False
    return bool(HOST_RE.match(host)) and path.startswith("/")


def main():
    docroot = tempfile.mkdtemp(prefix="c02-2-")
    try:
        body = b"RELEASE-NOTES-BODY\n"
        with open(os.path.join(docroot, "release notes 2024"), "wb") as fp:
            fp.write(body)
        os.mkdir(os.path.join(docroot, "minutes"))
        with open(os.path.join(docroot, "minutes", "board june 7"), "wb") as fp:
            fp.write(body)
        config = make_config(docroot)
        server = initialization.get_server(config)
        server.server_close()

        failures = []

        # Sanity: a real Spartan request is (rightly) answered by Spartan.
        proto, out = serve(config, server, b"example.org / 0\r\n")
        assert is_spartan_shape(b"example.org / 0\r\n")
        assert isinstance(proto, SpartanProtocol), proto

        # 1. Follow the server's own gopher menus.
        todo, selectors = [b"/"], []
        while todo:
            sel = todo.pop()
            proto, menu = serve(config, server, sel + b"\r\n")
            assert isinstance(proto, GopherProtocol), (sel, proto)
            for entry in menu.splitlines():
                fields = entry.split(b"\t")
                if len(fields) >= 4 and entry[:1] in (b"0", b"1"):
                    selectors.append((entry[:1], fields[1]))
                    if entry[:1] == b"1":
                        todo.append(fields[1])
        print("selectors advertised by the server's own gopher menus:")
        for t, sel in selectors:
            print("   type", t.decode(), repr(sel))

        extra = [(b"0", b"/notes/meeting june 2024"), (b"0", b"a b 0")]
        for t, sel in selectors + extra:
            line = sel + b"\r\n"
            proto, out = serve(config, server, line)
            name = type(proto).__name__
            if is_spartan_shape(line):
                continue  # genuinely ambiguous with Spartan: order decides
            # Not a Spartan request => with the shipped order the first
            # protocol whose shape matches is rfc1436.GopherProtocol.
            if not isinstance(proto, GopherProtocol):
                failures.append((line, name, out))
            elif (t, sel) in selectors and t == b"0" and out != body:
                failures.append((line, name, out))
            print("%-34r -> %-16s %r" % (line, name, out[:50]))

        if failures:
            print()
            print("PROPERTY C02 VIOLATED: request lines that do not have the documented")
            print("Spartan shape (host SP path-absolute SP content-length) were claimed by")
            print("SpartanProtocol instead of the gopher protocol:")
            for line, name, out in failures:
                print("  line=%r answered by %s: %r" % (line, name, out[:70]))
            return 1
        print("ok")
        return 0
    finally:
        shutil.rmtree(docroot, ignore_errors=True)


if __name__ == "__main__":
    sys.exit(main())
