#!/venv/bin/python
"""Regenerates MANIFEST.json from the table below (keeps it schema-valid)."""
import json, os
V = os.path.dirname(os.path.dirname(os.path.abspath(__file__)))

CHECKS = {
 "C11": ("fault_enumeration", "3.6",
   "Seeded simulation of the real DirHandler/ZIP cache code on a scratch tree: the stored cache is truncated at sampled offsets and, for two fixed small directories, at EVERY byte offset (one-entry directory: all ~3 000 prefixes in the quick tier), zero-filled, or its writer is killed / hits ENOSPC inside write() or only at close(), optionally after the directory changed since the cache was first written (so an interrupted in-place rewrite cannot hide behind identical bytes); concurrent listings run under the deterministic scheduler with torn writes so a reader can observe a writer, and a 'splice' scenario stalls a reader after k bytes of a still fresh cache file while another request (for which it has expired, after the directory changed) rewrites it. Every later response must equal the sequential reference listing. Sampling, not proof, except the per-prefix sweep of the fixed directory.",
   "Trusts the simulator (simkit): crash granularity is write() calls plus explicit truncation; TLS/kernel TCP/fork are stubs; dbm.dumb is the only dbm back end here.",
   "deterministic simulation: crash-point / ENOSPC / torn-write injection at the file seam + seeded PCT scheduling of concurrent readers vs writer, reference-model comparison"),
 "C12": ("fault_enumeration", "3.7",
   "Seeded simulation of real directory listings over a scratch tree containing one or two unservable entries (dangling/looping symlink, FIFO, socket, names the security filter rejects, stat failing with ENOENT/EACCES/EIO/ELOOP after enumeration, deletion injected exactly before the n-th file-system call that touches the entry or its sidecar, special files named like a UMN dot link file, like a neighbour's .abstract/.keywords/.ask/.3d sidecar, like a .cap/<name> file, like the directory cache file (fresh or expired) or like a ZIP index cache, archives whose symbolic-link members cannot be resolved (empty, escaping, looping targets), a gophermap directory whose linked file disappears or turns EACCES after exists() or whose port field is not a number, special files called 'gophermap', PYG files that do not load, damaged archives, one-character directory names with root twins (type-rewriting handler), a link-file block that hides or titles the unservable entry) at varied sort positions, through every listing protocol, both directory handlers and both server types. The listing must succeed and every other entry must equal the reference listing. Fault kinds x positions are enumerated by index for the first runs and sampled afterwards.",
   "Trusts the simulator; deletion races are injected at seam calls rather than by a free-running actor; FIFO open is modelled as blocking for ever.",
   "deterministic simulation: per-entry fault injection at the stat/open/listdir seam (incl. vanish-at-call), real special files, reference-model comparison of parsed listings"),
 "C20": ("fault_enumeration", "3.10",
   "Seeded simulation of one real connection whose k-th sendall fails (EPIPE, ECONNRESET, single-argument timeouts as ssl raises them, EAGAIN from SO_SNDTIMEO, ETIMEDOUT), optionally after a partial send, with every later send failing too; k is derived from the fault-free send count of the same request. A sweep covers every (response kind, protocol) pair of a fixed world with k in {0,1,last} (quick) or every k and error class (thorough); seeded runs vary sizes, k, class, partial sends and server type. After a reset the connection behaves as the kernel's does (later writes fail with EPIPE); output that a child process writes to the client socket by itself fails in the child, not in the server. Checked: accept loop and socketserver.handle_error untouched, probe connection served, log record with client address and the injected class and no foreign EXCEPTION class, all seam-opened files closed and /proc/self/fd unchanged after the worker and a GC pass.",
   "Trusts the simulator; send failures are injected at sendall() granularity; exception classes already logged by the fault-free run of the same request are not attributed to the fault. One known finding (D34: decompressor / script output on plaintext connections is written by the child process).",
   "deterministic simulation: send-fault injection at every write index of the simulated socket, open-file table + fd accounting, log oracle"),
 "C10": ("exploration", "3.5",
   "Seeded histories (5-40 operations: listings through any protocol incl. TLS variants, file create/delete/rename/rewrite, .names/.cap/.abstract edits, two directories swapping names, clock advances on both sides of the lifetime) run against one long-lived real server on a scratch tree with a simulated clock and simulated mtimes; lifetimes 0,1,2,180,3600; other cache file names and ignore patterns; request lines that arrive late (first byte at once, the rest after the lifetime has passed); directory scans that fail for one request; both directory handlers and server types. Every served listing must equal the fresh reference rendering of some tree state that was live within (now-L, now] (only the current state for L=0). Sampling of histories, no exhaustiveness.",
   "Trusts the simulator and the reference server (the same pygopherd code run alone with cachetime 0 on a snapshot of the state). Monotone clock only. One known finding (D14) is listed in known_findings.json.",
   "deterministic simulation: simulated clock + mtimes, seeded mutation/advance/request histories, history oracle against per-state reference renderings (explicit cache-age model)"),
 "C14": ("exploration", "3.8",
   "Seeded bursts of 2-8 simultaneous mixed-protocol clients (plus, in a tenth of the runs, storms of 10-16 clients on one ZIP archive, and floods of 42-60 clients on the forking server, half of them with max_children silent clients followed by late ordinary ones) (plaintext and stub-TLS, incl. header-detected WAP) against the real ThreadingTCPServer (baton-passing threads, pre-emption at every seam call, at sampled Python lines and around every statically found store to shared module/class/server state) and the real ForkingTCPServer (simulated fork with descriptor refcounts and private module memory per child); cold start per run, optional second burst on the warm server, shared directory caches; network plans with segmentation, delays, a stalled client (plaintext or TLS: the simulated TLS socket retries for ever on kernel-level timeouts, as the ssl module does), a slow reader with a small send buffer, a reset; script requests with different search strings; a transient stat/open failure (EMFILE/EIO/EACCES) in one worker, followed by a lone probe. Schedules are drawn by a seeded uniform/sticky/PCT scheduler. Oracles: byte equality with the sequential reference answer, bounded liveness (answered within 1 simulated second of the last request byte whatever other clients do; probes served), reaping (no zombie, no returning child, no leaked connection reference, finished threads leave server._threads). Sampling of schedules.",
   "Trusts the simulator. Pre-emption granularity is a Python line; class objects and stdlib module state are shared between simulated children; kernel TCP/TLS/fork are stubs. One known finding (D35: the forking accept loop reaps with a blocking waitpid once max_children children are alive).",
   "deterministic simulation: seeded PCT/uniform scheduling of real worker threads and simulated forked children with line-level and shared-store-directed pre-emption, network fault plans, reference-model comparison + liveness/reaping invariants"),
 "C07": ("exploration", "3.4",
   "The OS enumeration order of a directory is owned by the simulator (seeded permutation at os.listdir, all n! orders for directories of up to 4 names). Seeded directories mix names on both sides of every alternative of the shipped ignore pattern, dot-files, several UMN link files (overrides of the same entry from two files, hides, additions with tying titles), .cap overrides, dot-files with unparsable link-file lines, HTML files with malformed heads, names containing TAB/CR/LF (may be omitted, must never add foreign items) and names with '|' or '?' next to a mail folder of the same stem; both directory handlers and the documented full handler list (executables with '?'/'|' siblings, TAL templates, PYG files that do not load, archives that cannot be indexed), a directory whose selector looks like a mailbox message selector, eight protocols, both server types. The same listing is requested under K enumeration orders and must be byte-identical; its local entries must be exactly the visible names once each plus exactly the link-file additions; every excluded name must still be served by exact selector.",
   "Trusts the simulator and a 20-line visible-set model (dot-file, re.search(ignorepatt, selectorbase/name), Type=X in .cap or a ./ link block). One known finding (D12: plain DirHandler lists dot-files).",
   "deterministic simulation: seeded/exhaustive readdir-order permutation at the listdir seam, determinism-across-orders oracle + independent visible-set model"),
 "C19": ("fault_enumeration", "3.9",
   "initialization.initialize() runs for real on a generated config file with every privileged entry point (socket bind, TLS key load, fork, setpgrp, signal, pwd/grp lookups, chroot, chdir, setgroups, setregid, setreuid and their set*id relatives) replaced by a recorder backed by a process model (root dir, cwd, real/effective/saved uid and gid, groups; started as plain root or through a set-uid-root binary; reserved and unreserved ports; accounts whose numeric id is -1, for which set*id succeeds without effect) that enforces the kernel's preconditions and fails one chosen call. The grid (usechroot x setuid x setgid x TLS x detach x server type) x (no fault or each applicable call failing) x (error kind) is finite and enumerated completely in both tiers (evidence: exhaustive=true); order, exactly-once, final credentials, root rewritten, cwd inside the new root, abort on failure and no privileged call after a failure are checked over the recorded call sequence.",
   "Privileged system calls are modelled, not executed; the process is assumed to start as root with a cwd outside the document root.",
   "deterministic simulation of the privileged-syscall seam: recorded call sequence + process model, exhaustive single-fault enumeration over the option grid"),
 "C03": ("exploration", "3.3",
   "Seeded histories of 4-16 connections against ONE long-lived real server on a scratch world (cache files and ZIP index caches accumulate, module lazies stay warm, the simulated clock jumps across the cache lifetime), drawn from a grammar of valid requests for every object kind in every protocol (half of a history addresses one focus object or group, also under alias spellings and through a symlink alias) and ~100 malformed shapes (NUL in every query form, digit strings of thousands of characters, ...), with seeded segmentation, missing half-close, missing body bytes or header terminators (answered after the simulated timeout), unfinished request lines (dropped after it), and documents that can be stat'ed but not opened (EACCES/EMFILE/EIO). The repository's own logging code runs against a strict UTF-8 stdout or a captured syslog; modules loaded at request time are byte-compiled as under bin/pygopherd. Per connection: answered and closed, nothing written after close, a protocol object was selected, no socketserver.handle_error, no internal-error log record, response syntactically valid for the answering protocol class (independent validators incl. Gopher+ length = body bytes, no body after Gemini/Spartan error statuses, HEAD without body, no second HTTP response on the connection, no child-process output written beneath the TLS session), closed within timeout+1 simulated seconds, and byte-equal (directory timestamps aside) to the reference server's answer to the same request alone on a pristine world.",
   "Trusts the simulator, the validators in simkit/proto.py and the reference server. TLS handshakes are always well-formed (stub). One known finding (D17: cache files are retrievable).",
   "deterministic simulation: request histories on one stateful server with simulated clock, receive timeouts and network segmentation; per-connection invariants + history-independence against a reference run"),
 "C02": ("exploration", "3.2",
   "Every connection runs on a live simulated socket against the real server classes: all 256 first-byte values are swept with and without a TLS context, as one segment and with the first byte alone; seeded histories of 8-24 connections per server configuration (shipped protocol list read from the repository's conf, seeded permutations and sub-lists) mix canonical request shapes and near-misses of every protocol, random byte lines and HTTP header-block variants, each repeated under different segmentation/delay plans, including pauses longer than the configured timeout inside the first line and first lines of 8-70 KiB. Observed from outside: whether the TLS context wrapped the socket, the request line the handler read after the sniff, the class returned by getProtocol. Oracles: TLS iff 0x16, sniff consumes nothing, determinism across segmentation and history, secure flag = TLS-ness, totality with the shipped list, first documented-shape match wins (small independent shape model).",
   "Trusts the simulator and the 40-line shape model (only applied to canonical shapes and clear near-misses). TLS is a stub.",
   "deterministic simulation: live simulated sockets with seeded segmentation/delays and MSG_PEEK, exhaustive first-byte sweep, connection histories, observation of wrap_socket and getProtocol from outside"),
 "C01": ("exploration", "3.1",
   "The world outside the document root is a simulated, varied component: each run serves 30-80 requests from a traversal grammar (every protocol syntax and TLS variant x base object incl. ZIP with symlink members, archives whose members look like a mailbox / Maildir / archive / script / PYG, a gophermap whose link lines climb, mbox, script, PYG and files whose names contain backslashes or '..' x climbing token before/inside/after x 1-3 percent-encoding layers in five styles x virtual-argument, ZIP-member, URL: and type-rewrite forms) twice, in two worlds that are identical inside the root and differ outside (decoy secrets, a decoy ZIP/PYG/script, string-prefix siblings of the root; present, missing, replaced by directories, self-referencing or dangling links) and under two different working directories (seeded directories inside the scratch tree that hold decoy twins of the archive members) and two configuration files that differ in what they say about things outside the root (a private section, key and pid-file paths), with the shipped and the full handler list and both server types. Checked: seam monitor (audit events + interposed open/listdir: nothing outside the root, no '..' component, no relative path, programs executed live in the root), byte-identical responses and logs across the world pair, not-found for every selector whose once-decoded, slash-normalised form contains a climbing token. The request dimension is sampled input generation; the environment and the I/O seam are what is simulated.",
   "Trusts sys.addaudithook coverage and the interposed os/builtins entry points; a bare stat() of root+selector before the filter is counted but not flagged (it opens, reads, lists and runs nothing; revelation is decided by the world-pair comparison).",
   "deterministic simulation of the environment: world-pair non-interference under varied outside-of-root state and cwd + I/O-seam monitor (audit hook and interposed file-system entry points), seeded traversal grammar"),
}

NA = {
 "C04": "pure function of (file bytes, name, MIME tables, protocol); pygopherd has no partial-write/retry/chunk logic for a fault or schedule to exercise - input generation, not simulation",
 "C05": "crawl of a static site: every step is a deterministic request/response with no schedule, clock, fault or history in the statement",
 "C06": "relation between renderers on the same static input (the one stateful part, cross-protocol cache reuse, is decided under C10)",
 "C08": "parser/merge semantics over file contents; no nondeterminism or fault dimension",
 "C09": "parser semantics over gophermap file contents; no nondeterminism or fault dimension",
 "C13": "escaping property over strings; pure function of inputs",
 "C15": "rendering relation over static sidecar files; pure function of inputs",
 "C16": "differential between an archive and its extracted tree (the index cache's crash behaviour is decided under C11)",
 "C17": "compiler/interpreter semantics over (template, context); simpletal has no I/O, clock, thread or shared state",
 "C18": "escaping / context-restoration over (template, context); no schedule, clock or fault to simulate",
}
PENDING = {
}
# added in round 11 (DESIGN.md section 8.13)
EXTRA = {
 "C01": " Runs with line-level pre-emption send bursts of 2-3 identical climbing requests at once (threads and simulated children interleaved at shared-state stores).",
 "C02": " In a third of the histories the protocols option of the live configuration object is replaced between two connections; later connections are judged by the list then in force.",
 "C03": " The world also holds documents whose first line begins like an mbox separator without being one.",
 "C07": " Link-file blocks are separated by blank or by comment lines; in a fifth of the runs a link file or .cap file is replaced, after a first listing, by content of the same length and modification time.",
 "C10": " The lifetime option itself is lowered (also to 0) and restored on the live configuration during a history; every listing is judged by the lifetime in force when it is served.",
 "C11": " In a third of the truncate / zero-fill runs the same process first reads generation 1 of the cache, the directory changes, the cache expires and is rewritten, and generation 2 is what gets cut.",
 "C12": " Further kinds: a .cap that is a FIFO / socket / regular file / link; entries that go bad only after a first listing was served and cached (second request inside the lifetime).",
 "C14": " Zip storms run in worlds with and without a regular file under the index cache's bare name (the saved index is then read back while others rewrite it); long-life histories of 42-70 connections, mostly TLS, precede a burst; Condition.wait() parks the actor in the scheduler.",
 "C19": " Option names are spelled in lower / upper / title / camel case (configparser option names are case-insensitive); key files exist and are readable.",
 "C20": " Children started for the request (decompressor, script) are real processes waited for through the real waitpid; none may be left running or unreaped after the worker finished (outputs up to 300 KB, beyond a pipe buffer).",
}

def main():
    checks = []
    for pid, (level, ref, text, note, tech) in sorted(CHECKS.items()):
        checks.append({
            "property_id": pid,
            "quick_cmd": "./check %s --tier quick" % pid,
            "thorough_cmd": "./check %s --tier thorough" % pid,
            "evidence_file": "/verif/evidence/%s.json" % pid,
            "replay_cmd_template": "./check %s --replay {path}" % pid,
            "engine": "simkit",
            "level_claimed": {"category": level, "text": text + EXTRA.get(pid, ""),
                              "design_ref": "DESIGN.md section " + ref + " and 8.13"},
            "level_note": note,
            "technique": tech,
        })
    na = [{"property_id": k, "reason": v} for k, v in sorted(NA.items())]
    na += [{"property_id": k, "reason": v} for k, v in sorted(PENDING.items()) if k not in CHECKS]
    m = {
        "version": 1,
        "setup_cmd": "./setup.sh",
        "hooks": {
            "guard": "PYGOPHERD_VERIF_SIM",
            "enable": "no source hook exists: the simulator patches module attributes (threading.Thread, os.fork/_exit/waitpid, time.time, os.stat/listdir/..., builtins.open, socket objects) from outside at run time; the guard name is reserved and unused",
            "baseline_off_cmd": "cd /repo && /venv/bin/python -m pytest -ra -q -p no:cacheprovider --timeout=900 --continue-on-collection-errors",
            "source_commits": [],
            "add_only": True,
        },
        "engines": [{"name": "simkit", "path": "/verif/simkit",
                     "serves_properties": sorted(CHECKS.keys()),
                     "kind_free_text": "deterministic simulation with fault injection: baton-passing real threads with sys.settrace line pre-emption, discrete-event clock, simulated sockets/fork/TLS, interposed file-system entry points over a tmpfs scratch tree, seeded scenario generation, shrinking and replay files"}],
        "checks": checks,
        "not_applicable": sorted(na, key=lambda d: d["property_id"]),
        "notes": "Exit codes: 0 held (possibly KNOWN-FINDING lines), 1 VIOLATION with replay file, 2 harness error (never reported as held). All checks honour VERIF_SEED, VERIF_TIER, VERIF_RUNS, VERIF_JOBS, VERIF_BUDGET_S. known_findings.json lists recorded/fixed defects.",
    }
    with open(os.path.join(V, "MANIFEST.json"), "w") as f:
        json.dump(m, f, indent=1)
    print("wrote MANIFEST.json with", len(checks), "checks")

main()
