#!/venv/bin/python
"""C12 demo 4: one damaged ZIP archive (end-of-central-directory record
intact, central directory not) takes down the listing of the REAL directory
that contains it, when the ZIP handler is enabled.

Exit status 0 = property holds, 1 = property violated, 2 = demo itself broken.
"""
import atexit
import os
import shutil
import sys
import tempfile
import time
import traceback
import warnings

ROOT = os.path.dirname(os.path.dirname(os.path.dirname(os.path.abspath(__file__))))
sys.path.insert(0, ROOT)
os.chdir(ROOT)
warnings.simplefilter("ignore")

from pygopherd import initialization, logger, testutil  # noqa: E402

import zipfile  # noqa: E402

HANDLERS = """[url.HTMLURLHandler, ZIP.ZIPHandler, gophermap.BuckGophermapHandler,
            mbox.MaildirFolderHandler, mbox.MaildirMessageHandler,
            UMN.UMNDirHandler, html.HTMLFileTitleHandler,
            mbox.MBoxMessageHandler, mbox.MBoxFolderHandler,
            file.FileHandler]"""

# (request line, needs TLS mock)
REQUESTS = [
    ("gopher0", "/%s\r\n", False),
    ("gopher+", "/%s\t$\r\n", False),
    ("http", "GET /%s HTTP/1.0\r\n\r\n", False),
    ("spartan", "localhost /%s 0\r\n", False),
    ("gemini", "gemini://localhost/%s\r\n", True),
]


def request(config, line, tls):
    """Drive the real protocol/handler code in-process; returns (reply, exc)."""
    for attempt in range(50):
        try:
            proto = testutil.get_testing_protocol(line, config=config, use_tls=tls)
            break
        except OSError as e:  # port 64777 busy: somebody else runs tests too
            if "in use" not in str(e):
                raise
            time.sleep(0.2)
    else:
        raise SystemExit(2)
    try:
        proto.handle()
    except Exception:
        # In the real server GopherRequestHandler.handle() logs this and the
        # client gets whatever was written so far (nothing, or half a header).
        return proto.wfile.getvalue().decode(errors="surrogateescape"), traceback.format_exc(limit=-3)
    return proto.wfile.getvalue().decode(errors="surrogateescape"), None



GOOD = ("aaa.txt", "good.zip", "zzz.txt")


def make_good_zip(path):
    with zipfile.ZipFile(path, "w") as z:
        z.writestr("inside.txt", "hello from the archive\n" * 50)
        z.writestr("sub/other.txt", "more\n")


def main():
    docroot = tempfile.mkdtemp(prefix="c12-zip-")
    atexit.register(shutil.rmtree, docroot, True)
    variants = ("badsig", "partial")
    for name in variants + ("control",):
        d = os.path.join(docroot, name)
        os.mkdir(d)
        for good in ("aaa.txt", "zzz.txt"):
            with open(os.path.join(d, good), "w") as fp:
                fp.write("hello\n")
        make_good_zip(os.path.join(d, "good.zip"))

    config = initialization.init_config("conf/pygopherd.conf")
    config.set("pygopherd", "root", docroot)
    config.set("logger", "logmethod", "none")
    config.set("handlers.HandlerMultiplexer", "handlers", HANDLERS)
    config.set("handlers.ZIP.ZIPHandler", "enabled", "true")
    logger.init(config)
    initialization.init_mimetypes(config)

    for proto, fmt, tls in REQUESTS:
        reply, exc = request(config, fmt % "control", tls)
        if exc or not all("/control/" + n in reply for n in GOOD):
            print("DEMO BROKEN: control listing failed over", proto, exc, repr(reply))
            return 2

    # One damaged archive per directory.
    with open(os.path.join(docroot, "control", "good.zip"), "rb") as fp:
        data = fp.read()
    # (a) one flipped signature in the central directory
    i = data.index(b"PK\x01\x02")
    with open(os.path.join(docroot, "badsig", "mmm.zip"), "wb") as fp:
        fp.write(data[:i] + b"XX" + data[i + 2:])
    # (b) a partially downloaded archive: preallocated, only the tail (with the
    # end-of-central-directory record) has arrived so far, the rest is zeros
    with open(os.path.join(docroot, "partial", "mmm.zip"), "wb") as fp:
        fp.write(b"\0" * (len(data) - 22) + data[-22:])
    for name in variants:
        assert zipfile.is_zipfile(os.path.join(docroot, name, "mmm.zip"))

    violations = []
    for name in variants:
        for proto, fmt, tls in REQUESTS:
            reply, exc = request(config, fmt % name, tls)
            missing = [n for n in GOOD if "/%s/%s" % (name, n) not in reply]
            if exc or missing:
                violations.append((name, proto, missing, exc, reply))

    if not violations:
        print("OK: every listing succeeded and contains all the other entries")
        return 0
    print("C12 VIOLATED: a directory with ONE damaged .zip file cannot be listed")
    for name, proto, missing, exc, reply in violations:
        print("-- /%s over %s: other entries missing from the listing: %s; reply=%r"
              % (name, proto, missing, reply[:120]))
        if exc:
            print("   exception escaped protocol.handle():", exc.strip().splitlines()[-1])
    return 1


if __name__ == "__main__":
    sys.exit(main())
