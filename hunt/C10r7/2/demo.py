#!/usr/bin/env python
"""C10 hunt, finding 2 (an earlier finding that STILL happens on the current
code, with a new twist: a slow request overwrites a newer cache entry).

The age of a cache entry is still taken from the mtime of the cache file, i.e.
from the moment the entry was WRITTEN (dir.py: time.time() - st_mtime <
cachetime), not from the moment the directory was READ.  With the atomic
replace that was added since, the last writer wins, whatever the order in
which the directory was read.  Schedule (lifetime L = 2 s, threading server
semantics, real clock):

  t0        request A for /d reads the directory: [old.txt]; A is slow
            (its os.listdir returns after 1.5 s: busy disk, huge directory)
  t0+0.1    admin creates /d/new.txt
  t0+0.3    request B for /d: fresh scan [new.txt, old.txt], cache written
  t0+1.5    A finishes, and REPLACES B's entry by its own, older, listing
            [old.txt]; the file's mtime says "written just now"
  t0+3.0    request C for /d: entry is 1.5 s "old" -> served from the cache:
            [old.txt], although new.txt has existed for 2.9 s > L, and
            although B's client was already shown new.txt 2.7 s earlier.

Checks the property (not the implementation): what C receives must be the
listing of a state the directory had at some time in [T-L, T].  Exit 0 = holds.
"""
import io
import os
import shutil
import sys
import tempfile
import threading
import time
import warnings

WT = os.path.dirname(os.path.dirname(os.path.dirname(os.path.abspath(__file__))))
sys.path.insert(0, WT)
os.chdir(WT)
warnings.simplefilter("ignore")

from pygopherd import initialization, logger  # noqa: E402
from pygopherd.protocols import ProtocolMultiplexer  # noqa: E402
import pygopherd.handlers.base as hbase  # noqa: E402
import pygopherd.handlers.HandlerMultiplexer as hmux  # noqa: E402

assert os.path.realpath(hbase.__file__).startswith(os.path.realpath(WT)), hbase.__file__

L = 2
SLOW = 1.5


class FakeServer:
    server_name = "gopher.example"
    server_port = 70

    def __init__(self, config):
        self.config = config


class FakeRequestHandler:
    client_address = ("10.0.0.1", 1234)
    request = object()


root = tempfile.mkdtemp(prefix="c10-root-")
os.mkdir(root + "/d")
with open(root + "/d/old.txt", "w") as fp:
    fp.write("old\n")

config = initialization.init_config("conf/pygopherd.conf")  # shipped defaults
config.set("pygopherd", "root", root)
config.set("handlers.dir.DirHandler", "cachetime", str(L))
config.set("logger", "logmethod", "none")
logger.init(config)
initialization.init_mimetypes(config)
hmux.handlers = None
hmux.rootpath = None
hbase.rootpath = None


def listing(selector):
    rfile, wfile = io.BytesIO(), io.BytesIO()
    proto = ProtocolMultiplexer.getProtocol(
        selector + "\r\n", FakeServer(config), FakeRequestHandler(), rfile, wfile, config
    )
    proto.handle()
    return wfile.getvalue().decode()


# --- schedule injection: the first os.listdir of /d is slow -----------------
real_listdir = os.listdir
dir_was_read = threading.Event()
slow_done = []


def slow_listdir(path=".", *a):
    names = real_listdir(path, *a)
    if not slow_done and os.fsdecode(path).rstrip("/") == root + "/d":
        slow_done.append(1)
        dir_was_read.set()
        time.sleep(SLOW)  # the kernel takes its time to hand the names over
    return names


os.listdir = slow_listdir

result = {}
# st_mtime is compared in whole seconds (statval[ST_MTIME] is an int), which
# makes an entry look up to 1 s older than it is.  Start at xx.55 so that A's
# write (t0+1.5) falls just after a full second and the schedule below is
# deterministic.
time.sleep((0.55 - time.time() % 1.0) % 1.0)
t0 = time.time()
thread_a = threading.Thread(target=lambda: result.__setitem__("A", listing("/d")))
thread_a.start()
dir_was_read.wait()

time.sleep(0.1)
with open(root + "/d/new.txt", "w") as fp:
    fp.write("new\n")
t_new = time.time()

time.sleep(0.2)
t_b = time.time()
result["B"] = listing("/d")
thread_a.join()
t_a_done = time.time()

time.sleep(max(0.0, t0 + 3.0 - time.time()))
t_c = time.time()
result["C"] = listing("/d")

os.listdir = real_listdir
shutil.rmtree(root, ignore_errors=True)

print("lifetime L = %d s" % L)
print("t0+%.2f  request A has read the directory (old.txt only) and is slow" % 0.0)
print("t0+%.2f  new.txt created" % (t_new - t0))
print("t0+%.2f  request B answered:\n%s" % (t_b - t0, result["B"]))
print("t0+%.2f  request A answered (and replaced B's cache entry):\n%s" % (t_a_done - t0, result["A"]))
print("t0+%.2f  request C answered:\n%s" % (t_c - t0, result["C"]))

# The states the directory had, with the interval in which each was current
state_old = "0old\t/d/old.txt\tgopher.example\t70\t+\r\n"
state_new = "0new\t/d/new.txt\tgopher.example\t70\t+\r\n" + state_old
states = [(t0 - 10, t_new, state_old), (t_new, float("inf"), state_new)]

bad = []
for name, when in (("B", t_b), ("C", t_c)):
    allowed = [s for (start, end, s) in states if end >= when - L and start <= when]
    if result[name] not in allowed:
        bad.append(name)
        print(
            "VIOLATION: answer %s (at t0+%.2f) is not a state the directory had in the last "
            "%d s; new.txt was %.2f s old at that time" % (name, when - t0, L, when - t_new)
        )
if "new.txt" in result["B"] and "new.txt" not in result["C"]:
    print("(the newer listing B had already been served %.2f s before C)" % (t_c - t_b))
sys.exit(1 if bad else 0)
