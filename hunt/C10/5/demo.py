#!/usr/bin/env python
"""
C10 hunt, finding 5: a FIFO created in a served directory under the cache
file's name (.cache.pygopherd.dir) blocks every listing of that directory for
ever -- with a positive lifetime AND with lifetime 0 -- because
DirHandler.savecache() (and loadcache(), while the FIFO looks "fresh") open()
whatever carries that name without looking at its file type.

(The same tree is served fine once the FIFO is removed; commit d375dd4 already
made the .abstract/.cap sidecar readers skip non-regular files, the cache file
was left out.)

C10: "with lifetime 0 every listing reflects the current directory" /
"the directory cache is transparent".  Check: for cachetime 0 and 180, the
listing of /d must arrive (within 3 s) and must list exactly the files in the
directory.  Exit 0 iff it does.

Run:  cd /tmp/wt4-C10 && /venv/bin/python HUNT/5/demo.py     (takes ~6 s)
"""
import os
import shutil
import signal
import sys
import tempfile
import time
from io import BytesIO

ROOT = os.path.dirname(os.path.dirname(os.path.dirname(os.path.abspath(__file__))))
sys.path.insert(0, ROOT)
os.chdir(ROOT)

from pygopherd import initialization, logger, testutil  # noqa: E402
from pygopherd.protocols import ProtocolMultiplexer  # noqa: E402

PATIENCE = 3


class Hung(BaseException):
    """Not an Exception/OSError on purpose: savecache() swallows IOError."""


def on_alarm(signum, frame):
    raise Hung()


def request(server, config, line):
    rfile = BytesIO(b"")
    wfile = BytesIO()
    handler = testutil.MockRequestHandler(
        testutil.MockRequest(rfile, wfile), ("10.77.77.77", "7777"), server
    )
    handler.rfile, handler.wfile = rfile, wfile
    protocol = ProtocolMultiplexer.getProtocol(
        line, server, handler, rfile, wfile, config
    )
    signal.alarm(PATIENCE)
    try:
        protocol.handle()
    except Hung:
        return None
    finally:
        signal.alarm(0)
    return wfile.getvalue().decode(errors="surrogateescape")


def main():
    signal.signal(signal.SIGALRM, on_alarm)
    tmp = tempfile.mkdtemp(prefix="c10-h5-")
    try:
        os.makedirs(os.path.join(tmp, "d"))
        with open(os.path.join(tmp, "d", "a.txt"), "w") as fp:
            fp.write("a\n")

        config = initialization.init_config("conf/pygopherd.conf")
        config.set("pygopherd", "root", tmp)
        config.set("pygopherd", "servername", "gopher.example")
        config.set("logger", "logmethod", "none")
        logger.init(config)
        initialization.init_mimetypes(config)
        server = None
        for _ in range(50):
            try:
                server = testutil.get_testing_server(config)
                break
            except OSError:
                time.sleep(0.2)
        assert server is not None, "could not bind the test port"

        expected = "0a\t/d/a.txt\tgopher.example\t%d\t+\r\n" % server.server_port

        # The "create" mutation of the content tree.
        os.mkfifo(os.path.join(tmp, "d", ".cache.pygopherd.dir"))

        bad = 0
        for cachetime in (0, 180):
            config.set("handlers.dir.DirHandler", "cachetime", str(cachetime))
            got = request(server, config, "/d\r\n")
            if got == expected:
                print("cachetime=%-3d ok: %r" % (cachetime, got))
            elif got is None:
                bad += 1
                print("cachetime=%-3d NO LISTING after %d s: the request is blocked in "
                      "open() of the FIFO named like the cache file" % (cachetime, PATIENCE))
            else:
                bad += 1
                print("cachetime=%-3d wrong listing: %r" % (cachetime, got))

        if bad:
            print("\nFAIL: directory on disk is %s, expected listing %r, but the "
                  "cache layer never lets the listing out."
                  % (sorted(n for n in os.listdir(os.path.join(tmp, "d"))
                            if not n.startswith(".")), expected))
            return 1
        print("PASS")
        return 0
    finally:
        shutil.rmtree(tmp, ignore_errors=True)


if __name__ == "__main__":
    sys.exit(main())
