"""C01 - nothing outside the document root is ever read, listed, run or revealed.

What the simulator owns here is the environment and the I/O seam the property
names: the world OUTSIDE the root is a simulated, varied component (two worlds
A/B, identical inside the root, different outside; decoy files, a decoy ZIP,
PYG and script, a string-prefix sibling of the root), the process working
directory is varied, and every file-system / exec call is observed through
audit events and the interposed entry points.  The request dimension is
sampled from a traversal grammar (it is input generation; the brief's
non-interference half is what makes this a simulation target).

Oracles: (1) seam monitor: no audited or interposed call touches a path that
is outside the root, contains a '..' component, is relative, or resolves
outside the root; programs executed live inside the root or are the configured
decompressor; (2) world-pair non-interference: response bytes and server log
are identical in A and B and under each cwd; (3) requests whose once-decoded,
slash-normalised selector contains a climbing token (and is not a URL:
selector) get the protocol's not-found reply; URL: selectors cause no
file-system call at all.
"""
import os
import random
import re
import sys
import urllib.parse

from simkit import harness, proto, sched, world, fs as simfs
from simkit.tape import Tape
from . import common
from . import c20

PROPERTY = "C01"
LEVEL = "exploration"
RUNS = {"quick": 1200, "thorough": 30000}
BATCH = 8
RULE = ("seeded runs of 30-80 requests from a traversal grammar (protocol syntax x base object x climbing token "
        "placed before/inside/after x encoding layers x virtual-argument / ZIP-member / URL: / type-rewrite forms), "
        "each served in two worlds that differ only outside the root and under two working directories; "
        "non-trivial = the request reached handler selection with a climbing token or an encoded form; distinct = "
        "distinct (protocol, token, placement, encoding, suffix form, base kind, handler list) tuples")
REAL = common.REAL
STUB = common.STUB
ASSUMPTIONS = [
    "file-system access is observed through sys.addaudithook events (open, os.listdir, os.scandir, os.chdir, "
    "os.remove, os.rename, subprocess.Popen, os.exec, os.posix_spawn, os.system) plus the interposed "
    "os.stat/lstat/listdir/open; C-level accesses that raise no audit event and bypass os.* are not seen",
    "content trees contain no symlink leaving the root (ZIP members may be symlinks pointing anywhere)",
]
PROBES_REQUIRED = ["token_requests", "encoded_requests", "zip_suffix", "url_selector", "exec_inside_root",
                   "worlds_compared"]

TOKENS = ["..", "../", "/..", "./", "//", ".\\", "\\\\", "\\", "\x00",
          # look-alikes that compatibility normalisation / case folding turn into dots and slashes
          "\uff0e\uff0e/", "\u2025/", "\u2024\u2024/", "..\uff0f", "\uff0e\uff0e\uff0f", "%2e%2e/", "..%2f",
          "\u00b7\u00b7/"]
CLIMB_TARGETS = ["secret.txt", "outside/secret.txt", "outside/evil.zip/x.txt", "outside/evil.pyg",
                 "outside/run.sh", "rootX/secret.txt", "root/../secret.txt"]
BASES = {"zip-mbox": "/mixed.zip/inbox", "zip-mbox-msg": "/mixed.zip/inbox|/MBOX-MESSAGE/1",
         "zip-maildir": "/mixed.zip/Mail", "zip-maildir-msg": "/mixed.zip/Mail|/MAILDIR-MESSAGE/1",
         "zip-in-zip": "/mixed.zip/inner.zip", "zip-in-zip-member": "/mixed.zip/inner.zip/deep.txt",
         "zip-script": "/mixed.zip/run.sh", "climbmap": "/climbmap", "zip-exec": "/arc.zip/bin/tool.sh", "zip-pyg": "/arc.zip/bin/run.pyg", "bs-name": "/docs/a.\\b.txt", "bs2-name": "/docs/c\\\\d.txt", "dd-name": "/docs/x..y",
         "file": "/small.txt", "dir": "/docs", "zip": "/arc.zip", "zip-member": "/arc.zip/d/b.txt",
         "mbox": "/mail.mbox", "script": "/script.sh", "pyg": "/hello.pyg", "missing": "/nope",
         "linkzip": "/linkzip.zip/evil", "linkzip-abs": "/linkzip.zip/abs", "maildir": "/md",
         # the server's own files inside the tree (written by an earlier listing of the same run)
         "linkclimb": "/linkclimb", "linkclimb2": "/linkclimb",
         "cachefile": "/docs/.cache.pygopherd.dir", "cachefile-root": "/.cache.pygopherd.dir",
         "zipcache": "/.cache.pygopherd.zip3.arc.zip.dat", "dir2": "/docs", "dir-root": "/"}
URL_PROTOS = ["http", "wap", "gemini", "spartan", "https", "head"]
GOPHER_PROTOS = ["gopher", "gopher+", "gopher$", "gopher!", "sgopher", "sgopher+"]

_events = []
_hook_on = [False]
_hook_installed = [False]
AUDITED = {"open", "os.listdir", "os.scandir", "os.chdir", "os.remove", "os.rename", "os.mkdir", "os.rmdir",
           "os.symlink", "os.link", "os.truncate", "os.chmod", "subprocess.Popen", "os.exec",
           "os.posix_spawn", "os.system", "os.startfile", "shutil.copyfile"}


def _hook(event, args):
    if _hook_on[0] and event in AUDITED:
        try:
            _events.append((event, args[0] if args else None, args[1] if len(args) > 1 else None))
        except Exception:
            pass


def _install_hook():
    if not _hook_installed[0]:
        sys.addaudithook(_hook)
        _hook_installed[0] = True


def enc(s, style):
    b = s.encode("utf-8", "surrogateescape")
    if style == "min":
        return urllib.parse.quote(b, safe="/")
    if style == "all":
        return "".join("%%%02X" % c for c in b)
    if style == "lower":
        return "".join("%%%02x" % c if not (48 <= c <= 57 or 65 <= c <= 90 or 97 <= c <= 122) else chr(c) for c in b)
    if style == "dots":
        return "".join("%2e" if c == 46 else "%2f" if c == 47 else "%5c" if c == 92 else
                       urllib.parse.quote(bytes([c]), safe="") for c in b)
    if style == "mixed":
        out = []
        for i, c in enumerate(b):
            out.append("%%%02X" % c if (i % 2 == 0 and c in (46, 47, 92)) else urllib.parse.quote(bytes([c]), safe="/"))
        return "".join(out)
    raise ValueError(style)


def gen_selector(rng):
    """Returns (selector string as the server should see it once decoded, shape dict)."""
    bk = rng.choice(sorted(BASES))
    base = BASES[bk]
    r = rng.random()
    token = None
    placement = "none"
    if r < 0.55:
        token = rng.choice(TOKENS)
        placement = rng.choice(["before", "inside", "after", "climb"])
        if placement == "before":
            sel = "/" + token + base.lstrip("/") if rng.random() < 0.5 else token + base
        elif placement == "inside":
            parts = base.split("/")
            i = rng.randrange(1, len(parts) + 1)
            sel = "/".join(parts[:i]) + ("/" if not token.startswith("/") else "") + token + \
                  ("/" if not token.endswith(("/", "\\")) and i < len(parts) else "") + "/".join(parts[i:])
        elif placement == "after":
            sel = base + ("/" if not token.startswith("/") else "") + token + rng.choice(["", "secret.txt", "x"])
        else:
            k = rng.randrange(1, 5)
            up = rng.choice(["../", "..\\", "..//", "./../", "\uff0e\uff0e/", "\u2025/", "..\uff0f",
                             "\uff0e\uff0e\uff0f", "%2e%2e/", "%2e%2e%2f"])
            token = up
            sel = rng.choice([base + "/", "/", "/docs/"]) + up * k + rng.choice(CLIMB_TARGETS)
    elif r < 0.65:
        placement = "absolute"
        token = "abs"
        sel = rng.choice(["{S}/secret.txt", "{S}/outside/secret.txt", "/{S}/root/../secret.txt", "//etc/passwd",
                          "/etc/passwd"])
    else:
        sel = base
    suffix = rng.choice(["none", "none", "pipe-args", "q-args", "mbox", "zipmember", "url", "type-rewrite",
                         "pipe-climb"])
    if suffix == "pipe-args":
        sel = sel + "|a b"
    elif suffix == "pipe-climb":
        sel = sel + "|" + rng.choice(["../../secret.txt", "/../x", "..", "/MBOX-MESSAGE/../1"])
        token = token or ".."
    elif suffix == "q-args":
        sel = sel + "?x=1"
    elif suffix == "mbox":
        sel = sel + "|/MBOX-MESSAGE/" + rng.choice(["1", "2", "../1", "1/../../x"])
    elif suffix == "zipmember":
        sel = "/arc.zip/" + sel.lstrip("/")
    elif suffix == "url":
        sel = rng.choice(["URL:", "/URL:"]) + rng.choice(["http://example.org/../../etc/passwd",
                                                          "file:///etc/passwd", "http://x/" + sel.lstrip("/")])
    elif suffix == "type-rewrite":
        sel = "/" + rng.choice("0159h") + (sel if sel.startswith("/") else "/" + sel)
    return sel, {"base": bk, "token": token, "placement": placement, "suffix": suffix}


def gen(seed, index, tier):
    rng = random.Random(seed)
    reqs = []
    for _ in range(rng.randrange(30, 81)):
        sel, shape = gen_selector(rng)
        fam = rng.choice(["gopher", "url", "url"])
        if fam == "gopher":
            p = rng.choice(GOPHER_PROTOS)
            layers = 0
            style = "raw"
        else:
            p = rng.choice(URL_PROTOS)
            layers = rng.choice([1, 1, 1, 2, 3])
            style = rng.choice(["min", "all", "lower", "dots", "mixed"])
        rq = {"sel": sel, "proto": p, "layers": layers, "style": style, "shape": shape}
        if shape["base"] in OPENFAULT_REL and shape["token"] is None and rng.random() < 0.25:
            rq["openfault"] = [OPENFAULT_REL[shape["base"]], rng.choice(["EACCES", "EIO", "ENXIO"])]
        if p == "spartan" and rng.random() < 0.15:
            # Spartan's path is the raw second word of the request line: it need not start with a slash.
            # Appended to the root's path as it stands it names a prefix-sibling of the root.
            rq["sel"] = rng.choice(["X/secret.txt", "X/", "X", "URL:x", ".bak/secret.txt", "-old/secret.txt",
                                    "X/secret.txt.abstract", "%58/secret.txt"])
            rq["noslash"] = True
            rq["layers"] = 1
            rq["shape"] = dict(shape, base="prefix-sibling", token=None, placement="none")
        if proto.PROTOCOLS[p][1] in ("http", "wap") and rng.random() < 0.4:
            # request headers a shortcut in front of the handlers might look at
            rq["hdr"] = rng.randrange(len(HTTP_HEADERS))
        if rng.random() < 0.2 and rq["shape"]["token"] and rq["shape"]["placement"] != "absolute":
            # the same request from several clients at once (the filter's answer for one connection must not
            # come from what another worker is doing with the same or the previous selector)
            rq["burst"] = rng.choice([2, 2, 3])
        reqs.append(rq)
    pre = rng.choice([0.0, 0.0, 0.05, 0.2, 0.5])
    if pre:
        # runs with line-level pre-emption: shorter, with more bursts, so that there is something to interleave.
        # Only requests that try to climb out come in bursts: their answer is not-found whatever the schedule,
        # so that races between workers that serve real objects (C14's subject) cannot show up here.
        reqs = reqs[:30]
        for rq in reqs:
            if "burst" not in rq and rq["shape"]["token"] and rq["shape"]["placement"] != "absolute" \
                    and rng.random() < 0.85:
                rq["burst"] = rng.choice([2, 3, 3, 4])
    return {"requests": reqs, "handlers": rng.choice(["default", "full", "full"]), "preempt_p": pre,
            # (never a directory outside the scratch tree: a defect that creates files relative to the
            #  working directory must not litter the machine)
            "cwds": rng.sample(["outside", "root", "rootX", "S"], 2),
            "servertype": rng.choice(["ThreadingTCPServer", "ForkingTCPServer"]),
            "outsideB": rng.choice(["different", "missing", "dir-instead", "loop", "dangling"]),
            "sched_seed": rng.randrange(1 << 30)}


def _inside_spec():
    spec = c20.make_spec(bigsize=5000, nmsg=2, ndocs=3)
    # real files whose names contain what the selector filter must refuse
    spec += [{"p": "docs/a.\\b.txt", "k": "file", "d": "backslash name\n"},
             {"p": "docs/c\\\\d.txt", "k": "file", "d": "double backslash name\n"},
             {"p": "docs/x..y", "k": "file", "d": "dotdot name\n"}]
    return spec


def _build_root(S):
    root = os.path.join(S, "root")
    world.build(root, _inside_spec())
    # a ZIP whose members are symlinks pointing out of the archive / the root
    import zipfile
    zp = os.path.join(root, "linkzip.zip")
    with zipfile.ZipFile(zp, "w") as z:
        z.writestr(zipfile.ZipInfo("inside.txt", date_time=(2001, 9, 1, 12, 0, 0)), "inside\n")
        for name, target in (("evil", "../../secret.txt"), ("abs", "/etc/passwd"), ("up", "../secret.txt")):
            zi = zipfile.ZipInfo(name, date_time=(2001, 9, 1, 12, 0, 0))
            zi.external_attr = (0o120777 << 16)
            z.writestr(zi, target)
    simfs.real_utime(zp, (sched.EPOCH - 5000, sched.EPOCH - 5000))
    # an archive whose members look like things that only real files should be: a mailbox, a Maildir,
    # another archive, a script
    import io
    inner = io.BytesIO()
    with zipfile.ZipFile(inner, "w") as z:
        z.writestr(zipfile.ZipInfo("deep.txt", date_time=(2001, 9, 1, 12, 0, 0)), "deep inside\n")
    mz = os.path.join(root, "mixed.zip")
    with zipfile.ZipFile(mz, "w") as z:
        def add(name, data, mode=0o644):
            zi = zipfile.ZipInfo(name, date_time=(2001, 9, 1, 12, 0, 0))
            zi.create_system = 3
            zi.external_attr = ((0o40755 << 16) | 0x10) if name.endswith("/") else ((0o100000 | mode) << 16)
            z.writestr(zi, data)
        add("inbox", world.mbox_bytes(2, "zipped"))
        add("Mail/", b"")
        add("Mail/new/", b"")
        add("Mail/cur/", b"")
        add("Mail/tmp/", b"")
        add("Mail/cur/1000000001.M1P1.sim:2,S", b"From: z@example.org\nSubject: zipped maildir\n\nhi\n")
        add("inner.zip", inner.getvalue())
        add("run.sh", b"#!/bin/sh\necho from the archive\n", 0o755)
    simfs.real_utime(mz, (sched.EPOCH - 5000, sched.EPOCH - 5000))
    # a gophermap whose links try to climb out of the root
    os.makedirs(os.path.join(root, "climbmap"))
    simfs.write_file(os.path.join(root, "climbmap", "gophermap"),
                     b"Links that leave the root\n0secret\t../../secret.txt\n1outside\t/../outside\n"
                     b"0abs\t/../secret.txt\n0fine\tok.txt\n0a url-like selector without a host\tURL:x\nhweb\tURL:http://example.org/\n"
                     b"1sibling by prefix\tX/secret.txt\n", sched.EPOCH - 5000)
    simfs.write_file(os.path.join(root, "climbmap", "ok.txt"), b"ok\n", sched.EPOCH - 5000)
    # UMN link files whose blocks climb (with and without Type/Host/Port)
    os.makedirs(os.path.join(root, "linkclimb"))
    simfs.write_file(os.path.join(root, "linkclimb", ".Links"),
                     b"Name=minutes\nPath=/../outside/secret.txt\n\nName=relative\nPath=./../../secret.txt\n\n"
                     b"Name=typed\nType=0\nPath=/../secret.txt\n\nName=sibling\nPath=../rootX/secret.txt\n\n"
                     b"Name=fine\nPath=./ok.txt\n", sched.EPOCH - 5000)
    simfs.write_file(os.path.join(root, "linkclimb", "ok.txt"), b"ok\n", sched.EPOCH - 5000)
    simfs.real_utime(os.path.join(root, "linkclimb"), (sched.EPOCH - 5000, sched.EPOCH - 5000))
    # a regular (empty, recent) file under the name of an archive's index cache: with the installed dbm back end
    # the server never writes that name itself; it is what makes the "load the saved index" path run
    simfs.write_file(os.path.join(root, ".cache.pygopherd.zip3.arc.zip"), b"", sched.EPOCH - 10)
    simfs.real_utime(os.path.join(root, "climbmap"), (sched.EPOCH - 5000, sched.EPOCH - 5000))
    simfs.real_utime(root, (sched.EPOCH - 5000, sched.EPOCH - 5000))
    return root


OPENFAULT_REL = {"file": "small.txt", "script": "script.sh", "mbox": "mail.mbox", "pyg": "hello.pyg",
                 "zip": "arc.zip"}
HTTP_HEADERS = [
    b"If-Modified-Since: Sat, 01 Jan 2000 00:00:00 GMT\r\n",
    b"If-Modified-Since: Fri, 01 Jan 2038 00:00:00 GMT\r\n",
    b"If-None-Match: *\r\nIf-Modified-Since: Thu, 01 Jan 1970 00:00:00 GMT\r\n",
    b"Range: bytes=0-15\r\n",
    b"Accept: text/html, text/vnd.wap.wml\r\nX-Wap-Profile: p\r\n",
    b"Host: sim.example.org\r\nAccept-Encoding: gzip\r\nIf-Unmodified-Since: Sat, 01 Jan 2000 00:00:00 GMT\r\n",
]


def _build_outside(S, variant):
    import zipfile
    # the world outside the root
    out = os.path.join(S, "outside")
    os.makedirs(out)
    os.makedirs(os.path.join(S, "rootX"))
    secret = "TOP SECRET %s\n" % variant
    if variant == "missing":
        pass
    elif variant == "loop":
        # every decoy is a symbolic link to itself: looking at it fails with ELOOP instead of ENOENT
        for d in (S, out, os.path.join(S, "rootX")):
            for n in ("secret.txt", "inbox", "inner.zip", "secret.txt.abstract"):
                os.symlink(n, os.path.join(d, n))
        for n in ("evil.zip", "evil.pyg", "run.sh"):
            os.symlink(n, os.path.join(out, n))
    elif variant == "dangling":
        for d in (S, out, os.path.join(S, "rootX")):
            for n in ("secret.txt", "inbox", "inner.zip"):
                os.symlink("/nonexistent/" + n, os.path.join(d, n))
    elif variant == "dir-instead":
        os.makedirs(os.path.join(S, "secret.txt"))
        os.makedirs(os.path.join(out, "secret.txt"))
    else:
        simfs.write_file(os.path.join(S, "secret.txt"), secret.encode(), sched.EPOCH - 99)
        simfs.write_file(os.path.join(out, "secret.txt"), secret.encode(), sched.EPOCH - 99)
        simfs.write_file(os.path.join(S, "rootX", "secret.txt"), secret.encode(), sched.EPOCH - 99)
        simfs.write_file(os.path.join(S, "rootX", "secret.txt.abstract"), ("abstract " + secret).encode(), sched.EPOCH - 99)
        for sib in ("root.bak", "root-old"):
            os.makedirs(os.path.join(S, sib), exist_ok=True)
            simfs.write_file(os.path.join(S, sib, "secret.txt"), secret.encode(), sched.EPOCH - 99)
        # what root + selector names when the selector does not start with a slash
        simfs.write_file(os.path.join(S, "rootURL:x"), secret.encode(), sched.EPOCH - 99)
        simfs.write_file(os.path.join(S, "rootURL:x.abstract"), ("abstract " + secret).encode(), sched.EPOCH - 99)
        with zipfile.ZipFile(os.path.join(out, "evil.zip"), "w") as z:
            z.writestr(zipfile.ZipInfo("x.txt", date_time=(2001, 9, 1, 12, 0, 0)), secret)
        simfs.write_file(os.path.join(out, "evil.pyg"), (c20.PYG.replace("hello from pyg", secret.strip())).encode(),
                         sched.EPOCH - 99, mode=0o755)
        simfs.write_file(os.path.join(out, "run.sh"), ("#!/bin/sh\necho %s\n" % secret.strip()).encode(),
                         sched.EPOCH - 99, mode=0o755)
        # what a cwd-relative path formed from an archive member name would find
        for d in (out, S):
            simfs.write_file(os.path.join(d, "inbox"), world.mbox_bytes(2, secret.strip()), sched.EPOCH - 99)
            simfs.write_file(os.path.join(d, "secret.txt.abstract"), ("abstract " + secret).encode(), sched.EPOCH - 99)
            with zipfile.ZipFile(os.path.join(d, "inner.zip"), "w") as z:
                z.writestr(zipfile.ZipInfo("deep.txt", date_time=(2001, 9, 1, 12, 0, 0)), secret)


def _clear_outside(S):
    import shutil
    for n in os.listdir(S):
        if n != "root":
            p = os.path.join(S, n)
            if os.path.isdir(p) and not os.path.islink(p):
                shutil.rmtree(p)
            else:
                os.unlink(p)


def _wire(rq, S):
    """Request bytes for one generated request (S = scratch base for absolute-path selectors)."""
    sel = rq["sel"].replace("{S}", S)
    p = rq["proto"]
    tls, fam = proto.PROTOCOLS[p]
    if rq["layers"] == 0:
        selb = sel.encode("utf-8", "surrogateescape")
        if fam == "gopher":
            return selb + b"\r\n", tls, sel
        return selb + b"\t" + p[-1].encode() + b"\r\n", tls, sel
    cur = sel
    once = sel
    for i in range(rq["layers"]):
        once = cur
        cur = enc(cur, rq["style"] if i == 0 else "min")
    path = cur if cur.startswith("/") or fam in ("http", "wap") and False else cur
    pathb = path.encode("latin-1", "replace")
    if fam == "http":
        if not pathb.startswith(b"/"):
            pathb = b"/" + pathb
        m = b"HEAD" if p == "head" else b"GET"
        hdr = HTTP_HEADERS[rq["hdr"]] if rq.get("hdr") is not None else b""
        return m + b" " + pathb + b" HTTP/1.0\r\n" + hdr + b"\r\n", tls, once
    if fam == "wap":
        hdr = HTTP_HEADERS[rq["hdr"]] if rq.get("hdr") is not None else b""
        return (b"GET /wap" + (pathb if pathb.startswith(b"/") else b"/" + pathb) + b" HTTP/1.0\r\n" + hdr + b"\r\n",
                tls, once)
    if fam == "gemini":
        return b"gemini://sim.example.org" + (pathb if pathb.startswith(b"/") else b"/" + pathb) + b"\r\n", tls, once
    if fam == "spartan":
        if rq.get("noslash"):
            return b"sim.example.org " + pathb + b" 0\r\n", tls, once
        return b"sim.example.org " + (pathb if pathb.startswith(b"/") else b"/" + pathb) + b" 0\r\n", tls, once
    raise ValueError(p)


def _norm_selector(once):
    s = once.strip()
    s = s.rstrip("/")      # every trailing slash is dropped before handlers see the selector
    if not s.startswith("/"):
        s = "/" + s
    return s


def _has_token(s):
    return any(t in s for t in ("./", "..", "//", ".\\", "\\\\", "\x00"))


def _classify(path, S, root, allowed):
    """None if the access is fine, else a short reason."""
    if path is None or isinstance(path, int):
        return None
    try:
        p = os.fsdecode(path)
    except Exception:
        return None
    if p == "":
        return "empty path"
    if not os.path.isabs(p):
        return "relative path"
    if p == S or p.startswith(S + "/"):
        if not (p == root or p.startswith(root + "/")):
            return "outside the root"
        if ".." in p[len(root):].split("/"):
            return "'..' component"
        try:
            rp = os.path.realpath(p)
        except ValueError:
            return None   # NUL in the path: no system call can be made with it
        if not (rp == root or rp.startswith(root + "/")):
            return "resolves outside the root"
        return None
    for a in allowed:
        if p == a or p.startswith(a.rstrip("/") + "/"):
            return None
    return "outside everything the server owns"


def _serve_world(sc, S, root, cwd_name, tape, secret="A"):
    """Serve every request once in this world; returns (responses, logs, monitor violations, counters, run)."""
    cwd = {"outside": os.path.join(S, "outside"), "root": root, "rootX": os.path.join(S, "rootX"),
           "/": os.path.join(S, "outside"), "S": S}[cwd_name]
    here = os.path.dirname(os.path.dirname(os.path.abspath(__file__)))
    allowed = [sys.prefix, sys.base_prefix, harness.REPO, here, "/verif", "/usr/share/zoneinfo", "/dev/null",
               "/usr/lib", "/lib", "/bin/zcat", "/usr/bin/zcat", "/etc/localtime", "/proc/self"]
    # both worlds draw their schedule from the scenario's seed alone (a replay is a pure function of the scenario)
    tp = Tape(sc["sched_seed"])
    # the configuration file lives outside the root as well: what it says beyond the options that shape
    # responses (a private section, key file paths, the pid file) is part of the outside world
    conf = {("backend", "dbpassword"): "OUTSIDE-ONLY-%s" % secret,
            ("pygopherd", "tls_keyfile"): "/etc/ssl/private/%s-key.pem" % secret,
            ("pygopherd", "pidfile"): "/var/run/%s/pygopherd.pid" % secret}
    run = harness.SimRun(root, tp, sc["sched_seed"], servertype=sc["servertype"], tls=True,
                         handlers=sc["handlers"], fsroot=S, conf=conf, preempt_p=sc.get("preempt_p", 0.0),
                         trace_hot=bool(sc.get("preempt_p")))
    resps = []
    logs = []
    bad = []
    counters = {}
    per_req_fs = []
    raw_obs = []
    old_cwd = os.getcwd()
    _install_hook()
    try:
        with run:
            os.chdir(cwd)      # (SimRun puts the process inside the scratch tree; choose the exact directory)
            run.fs.log_ops = True
            for rq in sc["requests"]:
                data, tls, once = _wire(rq, S)
                nlog = len(run.log)
                nops = len(run.fs.oplog)
                del _events[:]
                _hook_on[0] = True
                flt = None
                if rq.get("openfault"):
                    # a document that can be looked at but not opened (error texts are where paths leak)
                    # (the seam's root is the scratch base here, so that it sees the outside as well)
                    flt = simfs.Fault("open", "root/" + rq["openfault"][0], rq["openfault"][1], nth="all", mode="r")
                    run.fs.faults.append(flt)
                try:
                    c = run.client(data, tls=tls)
                    twins = [run.client(data, tls=tls) for _ in range(rq.get("burst", 1) - 1)]
                    run.go()
                finally:
                    _hook_on[0] = False
                    if flt is not None:
                        run.fs.faults.remove(flt)
                        if flt.fired:
                            counters["open_fault_fired"] = counters.get("open_fault_fired", 0) + 1
                if S.encode() in bytes(c.s2c) and S.encode() not in data and "{S}" not in rq["sel"] and \
                        not rq["shape"]["base"].startswith("cachefile"):
                    # where the root lives on the machine is outside-the-root information; only a request that
                    # spelled the path itself may get it echoed back
                    bad.append((rq, "response", repr(bytes(c.s2c)[:160]), "reveals the absolute path of the root"))
                resps.append(bytes(c.s2c).replace(S.encode(), b"<S>"))
                if twins:
                    # every client of the burst is part of the comparison between the two worlds (whether
                    # simultaneous clients get the SAME answer is C14's question, not this property's)
                    counters["burst_of_equal_requests"] = counters.get("burst_of_equal_requests", 0) + 1
                    resps[-1] = b"\x00|twin|\x00".join([resps[-1]] + [bytes(t.s2c).replace(S.encode(), b"<S>")
                                                                     for t in twins])
                logs.append([l.replace(S, "<S>") for l in run.log[nlog:]])
                if twins:
                    # which of the simultaneous workers logs first is the scheduler's choice, and the two worlds
                    # need not be scheduled alike; client ports differ only between the twins
                    logs[-1] = sorted(re.sub(r"^10\.0\.0\.\d+ ", "10.0.0.N ", l) for l in logs[-1])
                ops = run.fs.oplog[nops:]
                evs = list(_events)
                per_req_fs.append(len(ops) + len(evs))
                raw_obs.append((rq, ops, evs))
            run.shutdown()
            counters = common.merge_counters(counters, common.run_counters(run))
    finally:
        os.chdir(old_cwd)
    # classify the observed accesses (after the seam is gone, so that resolving paths is not itself observed)
    for rq, ops, evs in raw_obs:
        for op in ops:
            rel = op[1]
            why = _classify(os.path.join(S, rel) if rel else S, S, root, allowed)
            if why and op[0] == "stat":
                # a bare stat() opens, reads, lists and runs nothing; whether it REVEALS anything is
                # decided by the world-pair comparison below.  Counted, not flagged.
                counters["stat_outside_before_filter"] = counters.get("stat_outside_before_filter", 0) + 1
            elif why:
                bad.append((rq, "seam:" + op[0], rel, why))
        for ev, a0, a1 in evs:
            if ev == "subprocess.Popen":
                exe = os.fsdecode(a0)
                why = _classify(exe, S, root, allowed)
                if why and exe not in ("/bin/zcat", "/usr/bin/zcat"):
                    bad.append((rq, ev, exe, why))
                elif exe.startswith(root + "/"):
                    counters["exec_inside_root"] = counters.get("exec_inside_root", 0) + 1
                continue
            why = _classify(a0, S, root, allowed)
            if why:
                bad.append((rq, ev, repr(a0)[:200], why))
    return resps, logs, bad, counters, run, per_req_fs


def execute(sc, tape=None):
    harness.load_repo()
    import shutil
    with harness.Scratch("c1A") as SA, harness.Scratch("c1s") as SNAP:
        # both worlds live at the SAME path one after the other, so that a request carrying an
        # absolute path is byte-identical in both
        rootA = _build_root(SA)
        _build_outside(SA, "different")
        snap = os.path.join(SNAP, "root")
        harness.copy_tree(rootA, snap)
        ra, la, bada, ca, runa, fsa = _serve_world(sc, SA, rootA, sc["cwds"][0], tape)
        shutil.rmtree(rootA)
        _clear_outside(SA)
        harness.copy_tree(snap, rootA)
        _build_outside(SA, sc["outsideB"] if sc["outsideB"] != "different" else "other")
        rootB = rootA
        SB = SA
        rb, lb, badb, cb, runb, fsb = _serve_world(sc, SB, rootB, sc["cwds"][1], tape, secret="B")
        counters = common.merge_counters(ca, cb)
        counters["worlds_compared"] = 1
        viol = None
        shapes = set()
        for i, rq in enumerate(sc["requests"]):
            sh = rq["shape"]
            sig = {"proto_family": proto.PROTOCOLS[rq["proto"]][1], "token": sh["token"],
                   "suffix": sh["suffix"], "layers": rq["layers"]}
            mine = [b for b in bada + badb if b[0] is rq]
            if mine:
                b = mine[0]
                viol = {"oracle": "seam-monitor",
                        "signature": {"oracle": "seam-monitor", "call": b[1], "why": b[3], "base": sh["base"],
                                      "token": bool(sh["token"])},
                        "detail": "request %r (%s, layers %d): %s on %r: %s" % (
                            rq["sel"], rq["proto"], rq["layers"], b[1], b[2], b[3])}
                break
            if ra[i] != rb[i] or la[i] != lb[i]:
                viol = {"oracle": "non-interference", "signature": dict(sig, oracle="non-interference"),
                        "detail": "request %r (%s): world A (cwd %s) -> %r / %r ; world B (cwd %s, outside=%s) -> %r / %r"
                                  % (rq["sel"], rq["proto"], sc["cwds"][0], common.short(ra[i], 120), la[i][-2:],
                                     sc["cwds"][1], sc["outsideB"], common.short(rb[i], 120), lb[i][-2:])}
                break
            data, tls, once = _wire(rq, SA)
            ns = _norm_selector(once)
            is_url = ns.startswith("/URL:") or once.strip().startswith("URL:")
            if sh["token"]:
                counters["token_requests"] = counters.get("token_requests", 0) + 1
            if rq["layers"] >= 1:
                counters["encoded_requests"] = counters.get("encoded_requests", 0) + 1
            if sh["suffix"] == "zipmember" or sh["base"].startswith(("zip", "linkzip")):
                counters["zip_suffix"] = counters.get("zip_suffix", 0) + 1
            if is_url:
                counters["url_selector"] = counters.get("url_selector", 0) + 1
            elif _has_token(ns):
                p = "http" if rq["proto"] == "head" else rq["proto"]
                def nf_one(part):
                    if proto.is_not_found(p, part):
                        return True
                    if proto.PROTOCOLS[p][1] != "http":
                        return False
                    # the request's headers made the WAP protocol answer: its not-found is a WML deck under
                    # 'HTTP/1.0 200 Not Found'
                    head = part.partition(b"\r\n\r\n")[0]
                    return b"vnd.wap.wml" in head and head.split(b"\r\n", 1)[0].endswith(b" Not Found")
                nf = all(nf_one(part) for part in ra[i].split(b"\x00|twin|\x00"))
                if not nf:
                    viol = {"oracle": "climbing-selector-not-found",
                            "signature": dict(sig, oracle="climbing-selector-not-found"),
                            "detail": "request %r via %s (server-side selector %r) answered %r" % (
                                rq["sel"], rq["proto"], ns, common.short(ra[i], 160))}
                    break
            if sh["token"] or rq["layers"] > 1:
                shapes.add((proto.PROTOCOLS[rq["proto"]][1], sh["token"], sh["placement"], rq["style"], rq["layers"],
                            sh["suffix"], sh["base"], sc["handlers"]))
        # digest: requests that carry the (process-specific) scratch path are reduced to length + class
        dig_in = []
        for i, rq in enumerate(sc["requests"]):
            if "{S}" in rq["sel"]:
                dig_in.append([len(ra[i]), len(rb[i]), len(la[i]), len(lb[i])])
            else:
                dig_in.append([ra[i].decode("latin-1"), rb[i].decode("latin-1"), la[i], lb[i]])
        dig = common.digest(dig_in, runa.sim.switch_trace, runb.sim.switch_trace)
        res = common.result(viol, None, counters, dig, [],
                            0.0, runa.sim.steps + runb.sim.steps, runa.sim.switches + runb.sim.switches)
        res["shapes"] = [list(s) for s in sorted(shapes, key=repr)]
        return res


def shrink(sc):
    for cand in common.drop_each(sc["requests"]):
        if cand:
            yield dict(sc, requests=cand)
    if sc["servertype"] != "ThreadingTCPServer":
        yield dict(sc, servertype="ThreadingTCPServer")
    for i, rq in enumerate(sc["requests"]):
        if rq.get("burst", 1) > 2:
            yield dict(sc, requests=sc["requests"][:i] + [dict(rq, burst=2)] + sc["requests"][i + 1:])
