"""Sensitivity self-test: every mutant patch under selftest/mutants/ (and every
seeded change under seeded/*/patch.diff) is applied to a scratch copy of the
repository (outside /repo and /verif); the property's quick check, pointed at
the copy with VERIF_REPO_DIR, must report a violation.  The copy is removed."""
import glob
import json
import os
import shutil
import subprocess
import sys
import tempfile
import time

VERIF = os.path.dirname(os.path.dirname(os.path.abspath(__file__)))
REPO = os.path.realpath(os.environ.get("VERIF_REPO_DIR", "/repo"))


def collect(args):
    items = []
    for p in sorted(glob.glob(os.path.join(VERIF, "selftest", "mutants", "*.diff"))):
        prop = os.path.basename(p).split("-")[0].upper()
        items.append((prop, os.path.basename(p)[:-5], p))
    for p in sorted(glob.glob(os.path.join(VERIF, "seeded", "*", "patch.diff"))):
        meta = os.path.join(os.path.dirname(p), "meta.json")
        prop = "?"
        if os.path.exists(meta):
            prop = json.load(open(meta)).get("property", "?")
        items.append((prop, "seeded/" + os.path.basename(os.path.dirname(p)), p))
    if "--benign" in args:
        items = []
        for p in sorted(glob.glob(os.path.join(VERIF, "benign", "*", "patch.diff"))):
            meta = os.path.join(os.path.dirname(p), "meta.json")
            prop = json.load(open(meta)).get("property", "?") if os.path.exists(meta) else "?"
            items.append((prop, "benign/" + os.path.basename(os.path.dirname(p)), p))
    want = [a for a in args if not a.startswith("-")]
    if want:
        items = [it for it in items if any(w.lower() in (it[0] + " " + it[1]).lower() for w in want)]
    return items


def run_one(prop, name, patch, tier="quick", extra_env=None):
    at_baseline = None
    tmp = tempfile.mkdtemp(prefix="pgmut-", dir="/tmp")
    copy = os.path.join(tmp, "repo")
    t0 = time.time()
    try:
        shutil.copytree(REPO, copy, symlinks=True,
                        ignore=shutil.ignore_patterns(".git", "__pycache__", "*.pyc", ".pytest_cache"))
        r = subprocess.run(["patch", "-p1", "-s", "-d", copy, "-i", patch], capture_output=True, text=True)
        metaf = os.path.join(os.path.dirname(patch), "meta.json")
        if r.returncode == 0 and os.path.exists(metaf) and json.load(open(metaf)).get("neutralised_at_head"):
            # a later fix: commit made this change harmless on the current code: it is only meaningful on
            # the commit it was written against
            r = subprocess.CompletedProcess([], 1, "neutralised at HEAD", "")
        ported = os.path.join(os.path.dirname(patch), "ported.diff")
        if r.returncode != 0 and os.path.basename(patch) == "patch.diff" and os.path.exists(ported):
            # the same defect re-expressed on the current code (later fix: commits touch the same lines)
            shutil.rmtree(copy)
            shutil.copytree(REPO, copy, symlinks=True,
                            ignore=shutil.ignore_patterns(".git", "__pycache__", "*.pyc", ".pytest_cache"))
            r = subprocess.run(["patch", "-p1", "-s", "-d", copy, "-i", ported], capture_output=True, text=True)
        if r.returncode != 0 and "/benign/" in patch:
            # a behaviour-preserving change written for an older commit: on that commit the defects repaired
            # since would be reported, which says nothing about this change
            return "STALE", r.stdout + r.stderr, time.time() - t0
        if r.returncode != 0:
            # the seeded change was written against an older commit of /repo (later fix: commits touch
            # the same lines): rebuild the copy from that commit and apply it there
            meta = os.path.join(os.path.dirname(patch), "meta.json")
            base = None
            if os.path.exists(meta):
                base = json.load(open(meta)).get("verified_by_me", {}).get("baseline")
            if not base:
                return "PATCH-FAILED", r.stdout + r.stderr, time.time() - t0
            shutil.rmtree(copy)
            os.makedirs(copy)
            ar = subprocess.run("git -C %s archive %s | tar -x -C %s" % (REPO, base, copy), shell=True,
                                capture_output=True, text=True)
            r = subprocess.run(["patch", "-p1", "-s", "-d", copy, "-i", patch], capture_output=True, text=True)
            if ar.returncode != 0 or r.returncode != 0:
                return "PATCH-FAILED", ar.stderr + r.stdout + r.stderr, time.time() - t0
            at_baseline = base
        env = dict(os.environ, VERIF_REPO_DIR=copy, VERIF_EVIDENCE_DIR=os.path.join(tmp, "ev"),
                   VERIF_REPLAY_DIR=os.path.join(tmp, "rp"), VERIF_MIN_S="10")
        env.update(extra_env or {})
        p = subprocess.run([os.path.join(VERIF, "check"), prop, "--tier", tier],
                           capture_output=True, text=True, env=env, timeout=3600)
        out = p.stdout + p.stderr
        if p.returncode == 1 and "VIOLATION property=%s" % prop in out:
            # at an older commit the violations may come from defects repaired since: weaker evidence
            return ("CAUGHT" if not at_baseline else "CAUGHT@" + at_baseline[:7]), out, time.time() - t0
        if p.returncode == 0:
            return "MISSED", out, time.time() - t0
        return "ERROR(rc=%d)" % p.returncode, out, time.time() - t0
    finally:
        shutil.rmtree(tmp, ignore_errors=True)


def main(args):
    tier = "quick"
    if "--thorough" in args:
        tier = "thorough"
    items = collect(args)
    if not items:
        print("no mutants found")
        return 0
    bad = 0
    benign = "--benign" in args
    for prop, name, patch in items:
        verdict, out, dt = run_one(prop, name, patch, tier)
        if benign:
            # behaviour-preserving changes: the check must stay quiet
            verdict = {"MISSED": "QUIET", "CAUGHT": "FALSE-ALARM"}.get(verdict, verdict)
        line = ""
        for l in out.splitlines():
            if l.startswith("violation:"):
                line = l[:260]
                break
        print("%-8s %-4s %-44s %5.1fs %s" % (verdict, prop, name, dt, line))
        if verdict != ("QUIET" if benign else "CAUGHT") and not verdict.startswith("CAUGHT@") and verdict != "STALE":
            bad += 1
            if verdict.startswith("ERROR") or verdict == "PATCH-FAILED":
                print(out[-1500:])
        sys.stdout.flush()
    print("%s: %d/%d %s" % ("benign" if benign else "sensitivity", len(items) - bad, len(items),
                            "quiet" if benign else "caught"))
    return 0 if bad == 0 else 1
