#!/venv/bin/python
"""C14 demo 2: serving one client's request for a .pyg document makes the
server write a __pycache__ directory into the served directory, which then
turns up in the menu that another, simultaneous client receives.

PYGHandler.canhandlerequest() loads the .pyg file with
importlib's SourceFileLoader.exec_module(); with Python's default settings
that writes <dir>/__pycache__/<name>.cpython-XY.pyc next to the document.
__pycache__ is neither a dot-file nor matched by ignorepatt, so UMNDirHandler
lists it.

Schedule (threading server, two clients connected at the same time):
    client A:  /apps/hello.pyg        (a document)
    client B:  /apps                  (the menu of the same directory)
B's menu is compared with the menu B receives when it is alone against the
same content.  Exit status 0 only if they are equal.

(The harness environment sets PYTHONDONTWRITEBYTECODE=1; a server started as
documented - bin/pygopherd conf/pygopherd.conf - runs with the interpreter's
default, which this program restores.)
"""
import os
import shutil
import socket
import sys
import tempfile
import threading
import warnings

ROOT = os.path.dirname(os.path.dirname(os.path.dirname(os.path.abspath(__file__))))
sys.path.insert(0, ROOT)
os.chdir(ROOT)
warnings.simplefilter("ignore")

from pygopherd import GopherExceptions, initialization, logger  # noqa: E402
from pygopherd.handlers import HandlerMultiplexer  # noqa: E402,F401  (loads every handler module)

sys.dont_write_bytecode = False  # the interpreter's default

PYG = '''\
from pygopherd.handlers.pyg import PYGBase
from pygopherd.gopherentry import GopherEntry


class PYGMain(PYGBase):
    def canhandlerequest(self):
        return True

    def isdir(self):
        return False

    def getentry(self):
        entry = GopherEntry(self.selector, self.config)
        entry.type = "0"
        entry.mimetype = "text/plain"
        entry.name = "hello application"
        return entry

    def write(self, wfile):
        wfile.write(b"hello world!")
'''

HANDLERS = (
    "[url.HTMLURLHandler, gophermap.BuckGophermapHandler,"
    " mbox.MaildirFolderHandler, mbox.MaildirMessageHandler,"
    " UMN.UMNDirHandler, html.HTMLFileTitleHandler,"
    " mbox.MBoxMessageHandler, mbox.MBoxFolderHandler,"
    " pyg.PYGHandler, file.FileHandler]"
)


def populate(root: str) -> None:
    os.mkdir(os.path.join(root, "apps"))
    with open(os.path.join(root, "apps", "hello.pyg"), "w") as fp:
        fp.write(PYG)
    os.chmod(os.path.join(root, "apps", "hello.pyg"), 0o755)
    with open(os.path.join(root, "apps", "readme.txt"), "w") as fp:
        fp.write("read me\n")
    # fixed timestamps, so that the content is the same each time
    for dirpath, dirnames, filenames in os.walk(root, topdown=False):
        for name in filenames + dirnames:
            os.utime(os.path.join(dirpath, name), (1_600_000_000, 1_600_000_000))


def reset(root: str) -> None:
    """Bring the document root back to its initial content."""
    for name in os.listdir(root):
        path = os.path.join(root, name)
        shutil.rmtree(path) if os.path.isdir(path) else os.unlink(path)
    populate(root)


def tree(root: str):
    out = []
    for dirpath, dirnames, filenames in os.walk(root):
        for name in dirnames + filenames:
            out.append(os.path.relpath(os.path.join(dirpath, name), root))
    return sorted(out)


def start_server(root):
    config = initialization.init_config("conf/pygopherd.conf")
    config.set("pygopherd", "root", root)
    config.set("pygopherd", "servertype", "ThreadingTCPServer")
    config.set("pygopherd", "interface", "127.0.0.1")
    config.set("pygopherd", "servername", "localhost")
    config.set("pygopherd", "port", "0")
    config.set("logger", "logmethod", "none")
    config.set("handlers.HandlerMultiplexer", "handlers", HANDLERS)
    logger.init(config)
    GopherExceptions.init(False)
    initialization.init_mimetypes(config)
    server = initialization.get_server(config)
    threading.Thread(target=server.serve_forever, args=(0.05,), daemon=True).start()
    return server


def connect(port):
    return socket.create_connection(("127.0.0.1", port), timeout=20)


def finish(sock, request: bytes) -> bytes:
    sock.sendall(request)
    data = b""
    while True:
        chunk = sock.recv(65536)
        if not chunk:
            break
        data += chunk
    sock.close()
    return data


def main() -> int:
    root = tempfile.mkdtemp(prefix="c14-demo2-")
    populate(root)
    server = start_server(root)
    port = server.server_address[1]
    try:
        initial = tree(root)
        # Client B alone.
        alone = finish(connect(port), b"/apps\r\n")
        reset(root)
        assert tree(root) == initial

        # Clients A and B at the same time (both connected, each with its own
        # worker, before either is answered); A's request line arrives first.
        sock_a = connect(port)
        sock_b = connect(port)
        resp_a = finish(sock_a, b"/apps/hello.pyg\r\n")
        resp_b = finish(sock_b, b"/apps\r\n")

        print("content before the two requests :", initial)
        print("content after the two requests  :", tree(root))
        print("client A (/apps/hello.pyg) got  :", resp_a)
        print("menu /apps that B receives alone:")
        print(alone.decode())
        print("menu /apps that B receives while A is served too:")
        print(resp_b.decode())
        if resp_b != alone:
            print("VIOLATION: the menu B received depends on another client's request "
                  "(the server wrote __pycache__ into the document root for A).")
            return 1
        print("OK: B received exactly the menu it receives alone")
        return 0
    finally:
        server.shutdown()
        server.server_close()
        shutil.rmtree(root, ignore_errors=True)


if __name__ == "__main__":
    sys.exit(main())
