#!/usr/bin/env python
"""
C01 hunt, finding 3: a Maildir-shaped directory inside a ZIP archive makes the
server run mailbox.Maildir() on a path RELATIVE TO THE WORKING DIRECTORY:
it lists the messages of <cwd>/<member path> (outside the root) in the menu and,
when that directory does not exist, CREATES it (Maildir(create=True) is the
default) together with new/, cur/ and tmp/.

MaildirFolderHandler.canhandlerequest() accepts a VFSZip (isinstance(self.vfs,
VFS_Real) is true for the subclass) and asks the archive whether <dir>/new and
<dir>/cur exist; prepare() then calls Maildir(self.getfspath()) where
VFSZip.getfspath() is the path inside the archive, i.e. a relative path.

The check is the property itself (same root, two states of the world outside
it -> identical bytes, nothing outside opened, listed or created).
"""
import io
import os
import sys
import warnings

WT = os.path.dirname(os.path.dirname(os.path.dirname(os.path.abspath(__file__))))
sys.path.insert(0, WT)
os.chdir(WT)
warnings.simplefilter("ignore")

import shutil  # noqa: E402
import tempfile  # noqa: E402
import zipfile  # noqa: E402

import pygopherd.handlers.base as hbase  # noqa: E402
from pygopherd import initialization, logger, testutil  # noqa: E402
from pygopherd.handlers import HandlerMultiplexer  # noqa: E402

# ---------------------------------------------------------------- harness ---

WATCH = {"dir": None, "events": []}
FS_EVENTS = {
    "open", "os.listdir", "os.scandir", "os.mkdir", "os.remove", "os.rename",
    "os.rmdir", "os.chmod", "os.truncate", "os.utime", "os.link", "os.symlink",
}


def _audit(event, args):
    watched = WATCH["dir"]
    if watched is None or event not in FS_EVENTS or not args:
        return
    path = args[0]
    if isinstance(path, bytes):
        path = os.fsdecode(path)
    if not isinstance(path, str):
        return
    full = os.path.realpath(os.path.join(os.getcwd(), path))
    if full == watched or full.startswith(watched + os.sep):
        WATCH["events"].append("%s(%r)" % (event, path))


sys.addaudithook(_audit)


class KeepOpen(io.BytesIO):
    def close(self):
        pass


class FakeServer:
    server_name = "gopher.example"
    server_port = 70

    def __init__(self, config):
        self.config = config


def make_config(conffile, root, handlers=None):
    # conffile is one of the two configuration files shipped in conf/
    config = initialization.init_config(os.path.join(WT, "conf", conffile))
    config.set("pygopherd", "root", root)
    config.set("logger", "logmethod", "none")
    if handlers:
        config.set("handlers.HandlerMultiplexer", "handlers", handlers)
    logger.init(config)
    cwd = os.getcwd()
    os.chdir(WT)  # the mimetypes option is "./conf/mime.types:..."
    initialization.init_mimetypes(config)
    os.chdir(cwd)
    return config


def request(config, line, outside):
    """One request through the real GopherRequestHandler.handle()."""
    HandlerMultiplexer.handlers = None
    HandlerMultiplexer.rootpath = None
    hbase.rootpath = None
    rfile, wfile = KeepOpen(line), KeepOpen()
    handler = testutil.MockRequestHandler(
        testutil.MockRequest(rfile, wfile), ("10.0.0.1", 7777), FakeServer(config)
    )
    WATCH["events"] = []
    WATCH["dir"] = os.path.realpath(outside)
    try:
        handler.handle()
    finally:
        WATCH["dir"] = None
    return wfile.getvalue(), list(WATCH["events"])


# --------------------------------------------------------------- scenario ---


def tree(top):
    out = []
    for d, dirs, files in os.walk(top):
        for n in dirs + files:
            out.append(os.path.relpath(os.path.join(d, n), top))
    return sorted(out)


tmp = tempfile.mkdtemp(prefix="c01-hunt3-")
failures = []
try:
    root = os.path.join(tmp, "root")
    outside = os.path.join(tmp, "outside")  # the process working directory
    os.mkdir(root)
    os.mkdir(outside)
    with zipfile.ZipFile(os.path.join(root, "a.zip"), "w") as z:
        z.writestr("Mail/new/", "")
        z.writestr("Mail/cur/", "")
        z.writestr("Mail/cur/1:2,S", "Subject: public subject\n\npublic body\n")

    def state_a():
        for sub in ("new", "cur", "tmp"):
            os.makedirs(os.path.join(outside, "Mail", sub))
        with open(os.path.join(outside, "Mail", "cur", "99:2,S"), "w") as f:
            f.write("Subject: TOP-SECRET-SUBJECT\n\nsecret body\n")

    def state_b():
        shutil.rmtree(os.path.join(outside, "Mail"))

    os.chdir(outside)
    config = make_config("local.conf", root)  # shipped full handler list, ZIP on
    line = b"/a.zip/Mail\r\n"

    state_a()
    resp_a, ev_a = request(config, line, outside)
    state_b()
    before = tree(outside)
    resp_b, ev_b = request(config, line, outside)
    after = tree(outside)

    print("request %r, handler list of conf/local.conf, cwd = outside" % line)
    print("   outside has ./Mail : %r" % resp_a)
    print("   outside is empty   : %r" % resp_b)
    print("   outside tree before/after 2nd request: %s / %s" % (before, after))
    print("   outside paths touched: %s" % (sorted(set(ev_a + ev_b)) or "none"))
    if resp_a != resp_b:
        failures.append("response depends on a directory outside the root")
    if b"TOP-SECRET" in resp_a:
        failures.append(
            "messages of <cwd>/Mail (outside the root) were listed to the client"
        )
    if before != after:
        failures.append(
            "the request created %s outside the root"
            % sorted(set(after) - set(before))
        )
    if ev_a or ev_b:
        failures.append(
            "opened/listed/created outside the root: %s" % sorted(set(ev_a + ev_b))
        )
finally:
    os.chdir(WT)
    shutil.rmtree(tmp, ignore_errors=True)

if failures:
    print("\nPROPERTY C01 VIOLATED:")
    for f in failures:
        print(" - " + f)
    sys.exit(1)
print("C01 held for these cases")
sys.exit(0)
