import os, sys, tempfile, subprocess
sys.path.insert(0, "/tmp/wt7-C19"); os.chdir("/tmp/wt7-C19")
CHILD = r'''
import os, sys, json, socket, threading
sys.path.insert(0, "/tmp/wt7-C19"); os.chdir("/tmp/wt7-C19")
from pygopherd import initialization
s = initialization.initialize(sys.argv[1])
port = s.socket.getsockname()[1]
t = threading.Thread(target=s.serve_forever, daemon=True); t.start()
for req in [b"/MARK\r\n", b"\r\n", b"/sub\r\n", b"GET /MARK HTTP/1.0\r\n\r\n", b"/MARK\t+\r\n", b"/\t$\r\n"]:
    c = socket.create_connection(("127.0.0.1", port)); c.sendall(req)
    data = b""
    while True:
        x = c.recv(65536)
        if not x: break
        data += x
    print(req, data[:600])
print(sorted(m for m in sys.modules if getattr(sys.modules[m], "__file__", None) and not os.path.exists("/nonexistent"))[:0])
'''
base = open("conf/pygopherd.conf").read().replace("mimetypes = ./conf", "mimetypes = /tmp/wt7-C19/conf")
d = tempfile.mkdtemp(); os.chmod(d, 0o755); open(d+"/MARK","w").write("hello from inside\n"); os.mkdir(d+"/sub"); open(d+"/sub/x.txt","w").write("x")
os.system("chown -R nobody:nogroup %s" % d)
for st in ["ForkingTCPServer", "ThreadingTCPServer"]:
    conf = base.replace("root = /var/gopher", "root = %s" % d).replace("port = 70", "port = 0").replace("logmethod = syslog", "logmethod = file")
    conf = conf.replace("pidfile = /var/run/pygopherd/pygopherd.pid","").replace("#setuid = gopher","setuid = nobody").replace("#setgid = gopher","setgid = nogroup")
    conf = conf.replace("servertype = ForkingTCPServer", "servertype = "+st)
    p = os.path.join(tempfile.mkdtemp(), "c.conf"); open(p,"w").write(conf)
    r = subprocess.run([sys.executable, "-c", CHILD, p], capture_output=True, text=True, env=dict(os.environ, PYTHONWARNINGS="ignore"))
    print(st); print(r.stdout[-6000:]); print(r.stderr[-3000:])
