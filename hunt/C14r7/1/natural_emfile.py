#!/venv/bin/python
"""Supporting evidence for finding 1 (not the primary demo; demo.py is
deterministic): the same leak WITHOUT any injected fault.

A threading server (all workers share one descriptor table) runs with a small
RLIMIT_NOFILE.  While one client asks for the menu /docs, other clients connect
and disconnect.  Now and then the worker that builds the menu gets EMFILE when
it opens an HTML file to read its title; it leaves the entry out - and saves
the short menu in the shared cache.  After ALL other clients are gone, a lone
client still receives the short menu.

Exit 1 as soon as that is observed, 0 if it never happens in ATTEMPTS rounds.
"""
import os
import resource
import shutil
import signal
import socket
import sys
import tempfile
import threading
import time
import warnings

ROOT = os.path.dirname(os.path.dirname(os.path.dirname(os.path.abspath(__file__))))
sys.path.insert(0, ROOT)
os.chdir(ROOT)
warnings.simplefilter("ignore")

from pygopherd import GopherExceptions, initialization, logger  # noqa: E402

ATTEMPTS = 60
NFILES = 40
LIMIT = 40


def build_tree() -> str:
    root = tempfile.mkdtemp(prefix="c14-demo1n-")
    os.mkdir(os.path.join(root, "docs"))
    for i in range(NFILES):
        with open(os.path.join(root, "docs", "p%02d.html" % i), "w") as fp:
            fp.write("<html><head><title>Page %d</title></head></html>\n" % i)
    return root


def serve(root, wfd):
    config = initialization.init_config("conf/pygopherd.conf")
    config.set("pygopherd", "root", root)
    config.set("pygopherd", "servertype", "ThreadingTCPServer")
    config.set("pygopherd", "interface", "127.0.0.1")
    config.set("pygopherd", "servername", "localhost")
    config.set("pygopherd", "port", "0")
    config.set("logger", "logmethod", "none")
    logger.init(config)
    GopherExceptions.init(False)
    initialization.init_mimetypes(config)
    server = initialization.get_server(config)
    os.write(wfd, b"%d\n" % server.server_address[1])
    os.close(wfd)
    devnull = os.open(os.devnull, os.O_WRONLY)
    os.dup2(devnull, 2)  # tracebacks of the workers that could not even start
    os.close(devnull)
    resource.setrlimit(resource.RLIMIT_NOFILE, (LIMIT, resource.getrlimit(resource.RLIMIT_NOFILE)[1]))
    server.serve_forever(0.05)


def fetch(port, request=b"/docs\r\n") -> bytes:
    sock = socket.create_connection(("127.0.0.1", port), timeout=20)
    sock.sendall(request)
    data = b""
    while True:
        chunk = sock.recv(65536)
        if not chunk:
            break
        data += chunk
    sock.close()
    return data


def nfds(pid) -> int:
    return len(os.listdir("/proc/%d/fd" % pid))


def main() -> int:
    root = build_tree()
    rfd, wfd = os.pipe()
    pid = os.fork()
    if pid == 0:
        os.close(rfd)
        try:
            serve(root, wfd)
        finally:
            os._exit(0)
    os.close(wfd)
    port = int(os.read(rfd, 32))
    cachefile = os.path.join(root, "docs", ".cache.pygopherd.dir")
    try:
        alone = fetch(port)
        assert alone.count(b"\r\n") == NFILES, alone
        os.unlink(cachefile)
        for attempt in range(1, ATTEMPTS + 1):
            # idle clients: connected, have not sent their request yet
            idle = []
            while nfds(pid) < LIMIT - 2:
                idle.append(socket.create_connection(("127.0.0.1", port)))
                time.sleep(0.002)
            stop = threading.Event()

            def churn():
                while not stop.is_set():
                    try:
                        s = socket.create_connection(("127.0.0.1", port), timeout=2)
                        time.sleep(0.001)
                        s.close()
                    except OSError:
                        pass

            churners = [threading.Thread(target=churn) for _ in range(3)]
            for t in churners:
                t.start()
            try:
                during = fetch(port)
            except OSError:
                during = b""
            stop.set()
            for t in churners:
                t.join()
            for s in idle:
                s.close()
            # wait until the server has no client left
            deadline = time.time() + 10
            base = None
            while time.time() < deadline:
                n = nfds(pid)
                if base is not None and n == base:
                    break
                base = n
                time.sleep(0.2)
            lone = fetch(port)
            if lone != alone:
                print("attempt %d: a LONE client, after every other client is gone, "
                      "receives a menu of %d entries instead of %d"
                      % (attempt, lone.count(b"\r\n"), NFILES))
                print("(the client served under descriptor pressure received %d entries; "
                      "its short menu was saved in the cache)" % during.count(b"\r\n"))
                return 1
            if os.path.exists(cachefile):
                os.unlink(cachefile)
        print("not observed in %d attempts" % ATTEMPTS)
        return 0
    finally:
        os.kill(pid, signal.SIGKILL)
        os.waitpid(pid, 0)
        shutil.rmtree(root, ignore_errors=True)


if __name__ == "__main__":
    sys.exit(main())
