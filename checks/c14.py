"""C14 - concurrent clients are isolated from one another.

2-8 simultaneous mixed-protocol clients (plaintext and stub-TLS) on one
listening port, against the threading server (line-level pre-emption) and the
forking server (simulated fork with per-process module memory), cold start in
every run, optionally a second burst on the warm server; network behaviour per
client: segmentation, delays, a stalled client, a slow reader with a small
send buffer, a client reset.

Oracles: (1) every well-behaved client's bytes equal the reference server's
answer to the same request alone; (2) bounded liveness: a client that has sent
its whole request is answered without waiting for anybody else's stall or
timeout, and a probe connection after the burst is served; (3) finished
workers are reaped (no zombie child, no child returning into the accept loop,
no leaked connection reference; finished threads leave server._threads).
"""
import os
import random

from simkit import harness, proto, sched, world, fs as simfs, net as simnet
from simkit.tape import Tape
from . import common
from . import c20

PROPERTY = "C14"
LEVEL = "exploration"
RUNS = {"quick": 1000, "thorough": 20000}
BATCH = 4
RULE = ("seeded bursts of 2-8 concurrent clients (request kind x protocol x network plan) x server type x "
        "scheduler policy (uniform/sticky/PCT) x pre-emption rate; non-trivial = more than one worker was "
        "alive at once (context switches between workers happened); distinct = distinct switch-trace hashes")
REAL = common.REAL
STUB = common.STUB
ASSUMPTIONS = [
    "pre-emption is at Python line granularity inside pygopherd/simpletal frames plus every seam call",
    "simulated fork shares class objects and stdlib module state between children (module-level data of "
    "pygopherd/simpletal is private per simulated process)",
    "time stands still while workers compute: only client delays, stalls and socket timeouts advance the clock",
]
PROBES_REQUIRED = ["workers_overlapped", "stalled_client_present", "slow_reader_blocked_server",
                   "cache_file_shared", "fork", "reaped", "tls_clients", "waitpid_blocked"]

KINDS = dict(c20.KINDS)
REQ_KINDS = ["doc-small", "doc-large", "menu", "menu", "menu-root", "menu-root", "html", "mbox-folder",
             "mbox-message", "maildir-folder", "maildir-message", "zip-listing", "zip-member", "zip2-member", "tal",
             "notfound", "gophermap", "url", "pyg", "script", "gz", "script-big", "gz-big", "mbox-message-1",
             "maildir-message-2", "zip-html-a", "zip-html-b", "stale-links", "menu-via-symlink", "menu-via-symlink",
             "zip-web-listing", "zip2-listing", "hidden-twice", "html-alpha", "html-beta"]
# groups of requests that touch the same underlying object / mechanism (a burst is often drawn from one group)
GROUPS = [["doc-small", "doc-large", "doc-large", "zip-member", "html"], ["doc-large", "doc-small"],
          ["menu", "menu-root", "menu-via-symlink"], ["menu", "menu-via-symlink"], ["mbox-folder", "mbox-message", "mbox-message-1"],
          ["maildir-folder", "maildir-message", "maildir-message-2"],
          ["zip-listing", "zip-member", "zip-html-a", "zip-html-b", "zip2-member", "zip-web-listing", "zip2-listing"],
          ["script", "script-big", "gz", "gz-big"], ["script", "script", "script-big"], ["html", "tal", "pyg"], ["html-alpha", "html-beta", "html"], ["html-alpha", "html-beta", "zip-html-a", "zip-html-b"]]
BIG = ["doc-large", "script-big", "gz-big", "menu-root", "mbox-folder"]
PROTOS = c20.PROTOS + ["wap-auto", "http", "https"]
TIMEOUT = 60
FOCUS = {
    # swarm: which yield kinds get priority change points under PCT
    "cache": {"write": 0.5, "torn": 0.5, "close": 0.1},
    "net": {"recv": 0.2, "send": 0.1, "accept": 0.2, "thread-start": 0.3},
    "io": {"read": 0.3, "open": 0.2, "stat": 0.05, "listdir": 0.2, "close": 0.2, "subprocess": 0.3},
    "data": {"hot-before": 0.5, "hot-after": 0.5},
    "mixed": {"write": 0.3, "torn": 0.3, "open": 0.05, "recv": 0.05, "send": 0.02,
              "thread-start": 0.1, "line": 0.05, "hot-before": 0.3, "hot-after": 0.3},
}


def _netplan(rng, role, nbytes):
    plan = {"role": role, "at": rng.choice([0.0, 0.0, 0.0, 0.001, 0.01]), "segments": [], "delays": []}
    if role == "normal":
        nseg = rng.choice([0, 0, 1, 2, 3])
        plan["segments"] = sorted(rng.sample(range(1, max(2, nbytes)), min(nseg, max(0, nbytes - 1))))
        if rng.random() < 0.3:
            plan["segments"] = sorted(set(plan["segments"] + [1]))
        plan["delays"] = [rng.choice([0.0, 0.0, 0.001, 0.01, 0.5]) for _ in range(len(plan["segments"]) + 1)]
    elif role == "stalled":
        plan["first"] = rng.choice([0, 0, 1, 1, 3])
        plan["stall"] = rng.choice([5.0, 30.0, 59.0, 61.0, 120.0])
        plan["then"] = rng.choice(["rest", "reset", "nothing"])
    elif role == "slow":
        plan["sndbuf"] = rng.choice([64, 512, 4096])
        plan["interval"] = rng.choice([0.001, 0.1, 1.0])
        plan["gives_up"] = rng.random() < 0.2
    elif role == "reset":
        plan["reset_after"] = rng.choice([0.0, 0.0, 0.001])
    return plan


def _burst(rng, n):
    roles = ["normal"] * n
    if n >= 2 and rng.random() < 0.45:
        roles[rng.randrange(n)] = "stalled"
    if n >= 2 and rng.random() < 0.35:
        i = rng.randrange(n)
        if roles[i] == "normal":
            roles[i] = "slow"
    if n >= 3 and rng.random() < 0.25:
        i = rng.randrange(n)
        if roles[i] == "normal":
            roles[i] = "reset"
    out = []
    group = rng.choice(GROUPS) if rng.random() < 0.75 else None
    for r in roles:
        kind = rng.choice(group) if (group and rng.random() < 0.8) else rng.choice(REQ_KINDS)
        if r == "slow" and rng.random() < 0.7:
            # a slow reader only matters when the response is larger than its send buffer
            kind = rng.choice([k for k in BIG if (group is None or k in group)] or BIG)
        p = rng.choice(PROTOS)
        if kind.startswith(("html", "zip-html")) and rng.random() < 0.6:
            p = rng.choice(["gopher!", "gopher!", "gopher$", "sgopher+"])   # the views that show the sniffed title
        search = None
        if kind in ("script", "script-big", "pyg", "menu", "tal") and rng.random() < 0.6:
            search = rng.choice(["alpha", "beta gamma", "x" * 40, "q1", "q2"])
        req, tls = proto.make_request(p, KINDS[kind], search)
        cl = {"kind": kind, "proto": p, "net": _netplan(rng, r, len(req) + (13 if tls else 0))}
        if search is not None:
            cl["search"] = search
        out.append(cl)
    return out


def gen(seed, index, tier):
    rng = random.Random(seed)
    n = rng.choice([2, 2, 3, 3, 4, 5, 6, 8])
    st = ["ThreadingTCPServer", "ForkingTCPServer"][index % 2]
    sc = {
        "servertype": st,
        "bursts": [_burst(rng, n)],
        "world": {"bigsize": rng.choice([100, 4097, 9000]), "nmsg": rng.randrange(2, 4),
                  "ndocs": rng.randrange(1, 6)},
        "preempt_p": rng.choice([0.0, 0.01, 0.05, 0.2]) if st == "ThreadingTCPServer" else rng.choice([0.0, 0.01]),
        "policy": rng.choice(["random", "random", "sticky", "pct", "pct", "pct"]),
        "focus": rng.choice(["cache", "net", "io", "data", "data", "mixed"]),
        "trace_hot": rng.random() < 0.9,
        "sched_seed": rng.randrange(1 << 30),
    }
    if rng.random() < 0.5:
        sc["bursts"].append(_burst(rng, rng.choice([2, 3, 4])))
    if st == "ForkingTCPServer" and rng.random() < 0.15:
        # one fork() fails (EAGAIN) while other clients, possibly a stalled one, are being served
        sc["forkfail"] = rng.randrange(1, max(2, len(sc["bursts"][0])) + 1)
    if rng.random() < 0.15:
        # one worker runs into a transient failure (descriptor table full, I/O error) while it builds the menu
        # of /docs; whatever it answers to its own client, nobody else may be served a degraded menu
        sc["bursts"][0][0]["kind"] = rng.choice(["menu", "menu", "menu-via-symlink"])
        sc["transient"] = {"op": rng.choice(["open", "stat", "open"]),
                           "rel": "docs/" + rng.choice(["page2.htm", "doc0.txt", "doc0.txt.abstract", ".abstract",
                                                        "photo.gif", "sub"]),
                           "kind": rng.choice(["EMFILE", "EIO", "EACCES"]), "nth": rng.choice([0, 0, 1, 2])}
    if rng.random() < 0.1:
        # a storm on one archive: many workers rebuild and rewrite the same index cache files at once
        storm = []
        menu_storm = rng.random() < 0.4
        for _ in range(rng.choice([10, 12, 16]) if not menu_storm else rng.choice([6, 8, 10])):
            kind = rng.choice(["zip-member", "zip-member", "zip-listing", "zip-html-a", "zip-web-listing"])
            if menu_storm:
                # everybody asks for the same cold directory: many scans and cache writes at once
                kind = rng.choice(["menu", "menu", "menu", "menu-via-symlink", "stale-links"])
            storm.append({"kind": kind, "proto": rng.choice(["gopher", "http", "gopher+", "gemini"]),
                          "net": {"role": "normal", "at": 0.0, "segments": [], "delays": [0.0]}})
        sc["bursts"] = [storm]
        sc["servertype"] = st = rng.choice(["ForkingTCPServer", "ForkingTCPServer", "ThreadingTCPServer"])
        sc["preempt_p"] = 0.0
        # uniform choice keeps all workers in step; priorities let one run far ahead of the others
        sc["policy"] = "random" if not menu_storm else rng.choice(["random", "pct", "pct", "sticky"])
        sc["focus"] = "io" if not menu_storm else rng.choice(["io", "cache", "mixed"])
        sc["trace_hot"] = False
        sc["storm"] = True
        if not menu_storm and rng.random() < 0.6:
            sc["barename"] = True
    elif st == "ForkingTCPServer" and rng.random() < 0.06:
        # a flood: more simultaneous children than ForkingMixIn.max_children (40), so that the accept
        # loop has to reap with the blocking waitpid(-1, 0) path while clients keep arriving
        flood = []
        for _ in range(rng.choice([42, 48, 60])):
            kind = rng.choice(["doc-small", "menu", "notfound", "html"])
            p = rng.choice(["gopher", "http", "gopher+", "spartan"])
            flood.append({"kind": kind, "proto": p,
                          "net": {"role": "normal", "at": 0.0, "segments": [], "delays": [rng.choice([0.5, 0.5, 0.7])]}})
        # a few of them keep their child alive for a while (the request arrives late)
        for cl in flood[:6]:
            cl["net"]["delays"] = [rng.choice([2.0, 10.0])]
        if rng.random() < 0.5:
            # max_children (40) clients that connect and then stay silent for a while, and a few ordinary
            # clients that arrive after them
            slow = []
            stall = rng.choice([5.0, 30.0, 59.0])
            for _ in range(rng.choice([40, 41, 44])):
                slow.append({"kind": rng.choice(["doc-small", "menu", "html"]), "proto": rng.choice(["gopher", "http"]),
                             "net": {"role": "stalled", "at": 0.0, "first": rng.choice([0, 1]), "stall": stall,
                                     "then": "rest"}})
            late = []
            for _ in range(rng.choice([1, 2, 3])):
                late.append({"kind": rng.choice(["doc-small", "menu", "notfound"]),
                             "proto": rng.choice(["gopher", "http", "gopher+"]),
                             "net": {"role": "normal", "at": 1.0, "segments": [], "delays": [0.0]}})
            flood = slow + late
        sc["bursts"] = [flood]
        sc["preempt_p"] = 0.0
        sc["trace_hot"] = False
    elif rng.random() < 0.05:
        # a long life: more connections, one after the other and mostly over TLS, than any per-server bound one might
        # think of (40 children, 64 slots); every one of them finished long ago when the last ones arrive
        hist = []
        for i in range(rng.choice([42, 45, 66, 70])):
            hist.append({"kind": rng.choice(["doc-small", "notfound", "doc-small", "html"]),
                         "proto": rng.choice(["gemini", "https", "sgopher", "sgopher+", "gemini", "gopher"]),
                         "net": {"role": "normal", "at": 0.25 * i, "segments": [], "delays": [0.0]}})
        sc["bursts"] = [hist, _burst(rng, 2)]
        sc["preempt_p"] = 0.0
        sc["trace_hot"] = False
        sc["long_life"] = True
    return sc


def _start_client(run, spec, t0):
    req, tls = proto.make_request(spec["proto"], KINDS[spec["kind"]], spec.get("search"))
    net = spec["net"]
    role = net["role"]
    at = t0 + net.get("at", 0.0)
    if role == "normal":
        return run.client(req, tls=tls, at=at, segments=net["segments"], delays=net["delays"])
    if role == "reset":
        return run.client(req, tls=tls, at=at, reset_after=net["reset_after"])
    if role == "slow":
        c = run.client(req, tls=tls, at=at, sndbuf=net["sndbuf"],
                       pump=None if net["gives_up"] else (net["interval"], net["sndbuf"]))
        return c
    if role == "stalled":
        payload = (simnet.fake_client_hello() if tls else b"") + req
        first = payload[: net["first"]]
        rest = payload[net["first"]:]
        tail = []
        if net["then"] == "rest":
            tail = [(net["stall"], rest), (0.0, None)]
        elif net["then"] == "reset":
            tail = [(net["stall"], "RESET")]
        c = run.client(first, tls=False, at=at, half_close=False, tail=tail)
        c.tls = tls
        return c
    raise ValueError(role)


def execute(sc, tape=None):
    harness.load_repo()
    with harness.Scratch("c14") as base:
        root = os.path.join(base, "root")
        world.build(root, c20.make_spec(**sc["world"]))
        if sc.get("barename"):
            # a regular file under the bare name of the ZIP index cache (what the gdbm / ndbm back ends create; with
            # dbm.dumb it takes an administrator's touch): the saved index is then read back, also while another
            # worker is rewriting it
            for z in ("arc.zip", "arc2.zip"):
                simfs.write_file(os.path.join(root, ".cache.pygopherd.zip3." + z), b"", sched.EPOCH - 10)
        refroot = os.path.join(base, "ref")
        harness.copy_tree(root, refroot)
        refs = {}
        for burst in sc["bursts"]:
            for cl in burst:
                key = (cl["kind"], cl["proto"], cl.get("search"))
                if key not in refs:
                    req, tls = proto.make_request(cl["proto"], KINDS[cl["kind"]], cl.get("search"))
                    out, _ = harness.one_shot(refroot, req, tls=tls, handlers="full",
                                              seed=sc["sched_seed"])
                    refs[key] = proto.normalize(cl["proto"], out)
        if sc.get("transient"):
            for kind_, p_ in (("menu", "gopher"), ("menu-via-symlink", "gopher")):
                if (kind_, p_, None) not in refs:
                    rq_, tls_ = proto.make_request(p_, KINDS[kind_])
                    o_, _ = harness.one_shot(refroot, rq_, tls=tls_, handlers="full", seed=sc["sched_seed"])
                    refs[(kind_, p_, None)] = proto.normalize(p_, o_)
        tp = Tape(sc["sched_seed"], replay=tape)
        pol = sc["policy"]
        run = harness.SimRun(root, tp, sc["sched_seed"], servertype=sc["servertype"], tls=True,
                             handlers="full", preempt_p=sc["preempt_p"],
                             sticky=0.7 if pol == "sticky" else 0.0,
                             policy="pct" if pol == "pct" else "random",
                             hot=FOCUS[sc.get("focus", "mixed")],
                             cp_base=0.005, timeout=TIMEOUT, step_cap=400000,
                             trace_hot=sc.get("trace_hot", False),
                             procmem=(sc["servertype"] == "ForkingTCPServer"))
        viol = None
        counters = {}
        resps = []
        with run:
            run.fs.watch_open = common.CACHEFILE
            max_live = [0]

            def on_switch_probe():
                pass

            trans = None
            if sc.get("forkfail") and run.forksim is not None:
                run.forksim.fail_forks = {sc["forkfail"]}
            for bi, burst in enumerate(sc["bursts"]):
                t0 = 0.0
                if bi == 0 and sc.get("transient"):
                    tr_ = sc["transient"]
                    trans = simfs.Fault(tr_["op"], tr_["rel"], tr_["kind"], nth=tr_["nth"],
                                        mode="r" if tr_["op"] == "open" else None)
                    run.fs.faults.append(trans)
                conns = [(_start_client(run, cl, t0), cl) for cl in burst]
                # sample worker overlap through the scheduler's history afterwards
                st = run.go()
                if st not in ("idle", "done"):
                    viol = viol or {"oracle": "liveness",
                                    "signature": {"oracle": "liveness", "why": str(st)},
                                    "detail": "burst %d ended with %s" % (bi, st)}
                    break
                # serve_forever's periodic wake-up
                run.poll += 1
                run.go()
                hit = False
                if trans is not None and bi == 0:
                    run.fs.faults.remove(trans)
                    hit = bool(trans.fired)
                    if hit:
                        counters["transient_failure_in_a_worker"] = 1
                        # a lone client, right afterwards (well inside the cache lifetime)
                        for kind_, p_ in (("menu", "gopher"), ("menu-via-symlink", "gopher")):
                            key_ = (kind_, p_, None)
                            rq_, tls_ = proto.make_request(p_, KINDS[kind_])
                            pc_ = run.client(rq_, tls=tls_)
                            run.go()
                            got_ = proto.normalize(p_, bytes(pc_.s2c))
                            if got_ != refs[key_] and viol is None:
                                viol = {"oracle": "isolation",
                                        "signature": {"oracle": "isolation", "kind": kind_, "reply": "degraded-menu-served-later",
                                                      "exc": None},
                                        "detail": "after a transient %s on %s in one worker, a lone client got %r, want %r" % (
                                            sc["transient"]["kind"], sc["transient"]["rel"], common.short(got_, 200),
                                            common.short(refs[key_], 200))}
                for c, cl in conns:
                    if run.forksim is not None and tuple(c.client_addr) in run.forksim.failed_clients:
                        # no worker could be created for this one connection: it is closed unanswered; that
                        # must not cost anybody else anything
                        counters["client_lost_to_failed_fork"] = 1
                        resps.append(bytes(c.s2c))
                        continue
                    if hit and cl["kind"] in ("menu", "menu-via-symlink", "menu-root", "gophermap"):
                        # (the gophermap links to /docs and the root menu lists it: both read docs/.abstract)
                        # one of these workers saw the failure: its own answer may lack the entry, and which
                        # worker it was is not observable from outside
                        resps.append(bytes(c.s2c))
                        continue
                    role = cl["net"]["role"]
                    resps.append(bytes(c.s2c))
                    if c.tls:
                        counters["tls_clients"] = counters.get("tls_clients", 0) + 1
                    if role == "stalled":
                        counters["stalled_client_present"] = 1
                    if sc.get("long_life") and bi == 0:
                        counters["long_life_of_tls_connections"] = 1
                    if role in ("normal", "slow") and viol is None:
                        if role == "slow" and cl["net"]["gives_up"]:
                            continue
                        got = proto.normalize(cl["proto"], bytes(c.s2c))
                        want = refs[(cl["kind"], cl["proto"], cl.get("search"))]
                        if not c.server_done():
                            viol = {"oracle": "answered", "signature": {"oracle": "answered", "role": role},
                                    "detail": "client %d (%s %s) never finished: blocked=%r" % (
                                        c.id, cl["kind"], cl["proto"],
                                        [a.label for a in run.sim.actors if a.state == "blocked"])}
                        elif got != want:
                            excs = [r[1] for r in run.exception_records() if r[1] != "FileNotFound"]
                            viol = {"oracle": "isolation",
                                    "signature": {"oracle": "isolation", "kind": cl["kind"],
                                                  "reply": "empty" if not got else (
                                                      "error" if not proto.is_success(cl["proto"], got) else "different"),
                                                  "exc": excs[-1] if excs else None},
                                    "detail": "client %d %s/%s got=%r want=%r log-exc=%r" % (
                                        c.id, cl["kind"], cl["proto"], common.short(got, 160),
                                        common.short(want, 160), excs[-3:])}
                        elif role == "normal":
                            # bounded liveness: answered without waiting for anyone else's stall
                            sent = c.last_client_byte_at
                            lag = (c.closed_at - sent) if (sent is not None and c.closed_at is not None) else 0.0
                            if lag > 1.0:
                                bsig = {"oracle": "bounded-liveness"}
                                maxc = getattr(run.server, "max_children", None)
                                if run.forksim is not None and maxc and any(
                                        nk >= maxc and t1 - max(t0_, sent) > 1.0
                                        for (t0_, t1, nk) in run.forksim.block_intervals):
                                    # the accept loop sat in the blocking waitpid(-1, 0) of
                                    # ForkingMixIn.collect_children with max_children live children
                                    bsig["cause"] = "accept-loop-reaps-blocking-at-max_children"
                                viol = {"oracle": "bounded-liveness",
                                        "signature": bsig,
                                        "detail": "client %d sent its request at t+%.3f but was answered %.3f s later "
                                                  "(roles in burst: %r)" % (c.id, sent - sched.EPOCH, lag,
                                                                          [x["net"]["role"] for x in burst])}
                if viol:
                    break
            if viol is None:
                # probe after the bursts
                preq, ptls = proto.make_request("gopher", "/small.txt")
                for _ in range(2):
                    pc = run.client(preq, tls=ptls)
                    run.go()
                    if bytes(pc.s2c) != b"tiny\n":
                        viol = {"oracle": "probe-served", "signature": {"oracle": "probe-served"},
                                "detail": "probe got %r" % bytes(pc.s2c)[:100]}
                        break
                run.poll += 1
                run.go()
            if viol is None:
                if run.accept_loop_exc is not None:
                    viol = {"oracle": "accept-loop", "signature": {"oracle": "accept-loop",
                                                                   "exc": type(run.accept_loop_exc).__name__},
                            "detail": repr(run.accept_loop_exc)}
                elif run.forksim is not None:
                    fsim = run.forksim
                    ret = [p for p, i in fsim.procs.items() if i.get("returned")]
                    if ret:
                        viol = {"oracle": "child-never-returns", "signature": {"oracle": "child-never-returns"},
                                "detail": "children %r returned from process_request instead of exiting" % ret}
                    elif fsim.zombies():
                        viol = {"oracle": "children-reaped", "signature": {"oracle": "children-reaped"},
                                "detail": "exited but unreaped children: %r (active_children=%r)" % (
                                    fsim.zombies(), getattr(run.server, "active_children", None))}
                    elif fsim.running():
                        stuck = fsim.running()
                        # children of stalled clients that never finish are legitimate only if their
                        # client is still silent; after timeouts everything must have ended
                        viol = {"oracle": "children-finish", "signature": {"oracle": "children-finish"},
                                "detail": "children still running at the end: %r" % stuck}
                else:
                    th = getattr(run.server, "_threads", None)
                    dead = [t for t in (th or []) if not t.is_alive()]
                    if th is not None and len(dead) > 1:
                        viol = {"oracle": "threads-reaped", "signature": {"oracle": "threads-reaped"},
                                "detail": "%d finished threads still in server._threads" % len(dead)}
                if viol is None:
                    leaked = [c.id for c in run.net.conns if c.accepted and not c.server_closed]
                    if leaked:
                        viol = {"oracle": "connections-closed", "signature": {"oracle": "connections-closed"},
                                "detail": "connections with a leaked descriptor reference: %r" % leaked}
            run.shutdown()
            counters = common.merge_counters(counters, common.run_counters(run))
            # probes
            tr = run.sim.switch_trace
            workers = set(a.id for a in run.sim.actors if a is not run.accept_actor)
            # overlap: a worker was switched away from and later resumed while another worker ran
            seen_run = []
            overlapped = False
            for aid in tr:
                if aid in workers:
                    if aid in seen_run and seen_run[-1] != aid:
                        overlapped = True
                    seen_run.append(aid)
            if overlapped:
                counters["workers_overlapped"] = 1
            if counters.get("net_send_blocked"):
                counters["slow_reader_blocked_server"] = 1
            opens = [(rel, m) for (rel, m, _) in run.fs.open_sizes]
            rels = {}
            for rel, m in opens:
                rels.setdefault(rel, set()).add(m)
            if any(len([1 for r2, m2 in opens if r2 == rel]) > 1 for rel in rels):
                counters["cache_file_shared"] = 1
            if run.forksim is not None and run.forksim.mem is not None:
                counters["procmem_swaps"] = run.forksim.mem.swaps
        shape = [sc["servertype"], common.digest(run.sim.switch_trace)] if overlapped else None
        return common.result(viol, shape, counters, common.run_digest(run, resps), tp.rec,
                             run.sim.now - sched.EPOCH, run.sim.steps, run.sim.switches)


def shrink(sc):
    if len(sc["bursts"]) > 1:
        yield dict(sc, bursts=sc["bursts"][:1])
        yield dict(sc, bursts=sc["bursts"][1:])
    for bi, burst in enumerate(sc["bursts"]):
        if len(burst) > 1:
            for cand in common.drop_each(burst):
                if cand:
                    yield dict(sc, bursts=sc["bursts"][:bi] + [cand] + sc["bursts"][bi + 1:])
        for ci, cl in enumerate(burst):
            if cl["net"]["role"] == "normal" and (cl["net"]["segments"] or any(cl["net"]["delays"])):
                c2 = dict(cl, net=dict(cl["net"], segments=[], delays=[], at=0.0))
                yield dict(sc, bursts=sc["bursts"][:bi] + [burst[:ci] + [c2] + burst[ci + 1:]] + sc["bursts"][bi + 1:])
            if cl["proto"] != "gopher":
                c2 = dict(cl, proto="gopher")
                yield dict(sc, bursts=sc["bursts"][:bi] + [burst[:ci] + [c2] + burst[ci + 1:]] + sc["bursts"][bi + 1:])
    if sc["preempt_p"]:
        yield dict(sc, preempt_p=0.0)
