"""Helpers shared by the property checks."""
import hashlib
import json
import os
import random

from simkit import harness, proto, sched, world, fs as simfs
from simkit.tape import Tape

REAL = [
    "pygopherd/* (server, protocols, handlers, initialization) from the working tree",
    "simpletal/*",
    "socketserver (_handle_request_noblock, process_request*, finish_request, shutdown_request, "
    "StreamRequestHandler, _SocketWriter, ForkingMixIn.collect_children)",
    "socket.SocketIO + io.BufferedReader over the simulated socket",
    "pickle, shelve/dbm.dumb, mailbox, zipfile, configparser, mimetypes",
    "real files on tmpfs (/dev/shm scratch tree per run)",
]
STUB = [
    "kernel TCP and socket objects (simkit.net.SimSocket / SimListenSocket)",
    "selectors wait of serve_forever (accept actor parks on the simulated accept queue)",
    "OpenSSL / TLS records (FakeTLSContext: fake ClientHello, pass-through bytes)",
    "kernel scheduler (baton-passing real threads, tape-decided)",
    "fork/_exit/waitpid (simulated processes on actors, descriptor refcounts)",
    "wall clock and file timestamps (simulated clock, utime after every write)",
    "readdir order (seeded permutation at os.listdir)",
    "stdout plumbing of subprocess to a socket (captured and written through wfile)",
]
CACHEFILE = ".cache.pygopherd.dir"


def digest(*parts):
    h = hashlib.sha256()
    for p in parts:
        if isinstance(p, bytes):
            h.update(p)
        else:
            h.update(json.dumps(p, sort_keys=True, default=repr).encode())
        h.update(b"|")
    return h.hexdigest()[:24]


def run_digest(run_or_runs, responses):
    runs = run_or_runs if isinstance(run_or_runs, (list, tuple)) else [run_or_runs]
    hist = []
    for r in runs:
        hist.append([list(map(_j, ev)) for ev in r.sim.history])
        hist.append(r.sim.switch_trace)
    outs = []
    for x in responses:
        x = bytes(x)
        for r in runs:
            x = x.replace(os.fsencode(os.path.dirname(r.root)), b"<BASE>")
        outs.append(x)
    d = digest(hist, outs)
    dump = os.environ.get("VERIF_DUMP_HIST")
    if dump:
        os.makedirs(dump, exist_ok=True)
        with open(os.path.join(dump, d + ".json"), "w") as f:
            json.dump({"hist": hist, "resp": [_j(bytes(x)) for x in responses]}, f, indent=0)
    return d


def _j(x):
    if isinstance(x, bytes):
        return x.decode("latin-1")
    if isinstance(x, (int, float, str, type(None), bool)):
        return x
    return repr(x)


def cut_from_spec(cs, size):
    if "abs" in cs:
        return min(cs["abs"], size)
    if "from_end" in cs:
        return max(0, size - cs["from_end"])
    return min(size, max(0, int(cs["frac"] * size)))


def cut_bucket(cut, size):
    if cut < 32:
        return "p%d" % cut
    if size - cut < 32:
        return "e%d" % (size - cut)
    return "m%d" % (cut * 16 // max(1, size))


def selector_of(path):
    return "/" + path if path else "/"


def result(violation, shape, counters, dig, tape, sim_s, steps=0, switches=0):
    return {"violation": violation, "shape": shape, "counters": counters, "digest": dig,
            "tape": list(tape), "sim_s": sim_s, "steps": steps, "switches": switches}


def merge_counters(*ds):
    out = {}
    for d in ds:
        for k, v in d.items():
            out[k] = out.get(k, 0) + v
    return out


def run_counters(run):
    c = dict(run.counters)
    for k, v in run.fs.counters.items():
        c["fs_" + k] = v
    for k, v in run.net.counters.items():
        c["net_" + k] = v
    return c


def short(b, n=300):
    if isinstance(b, bytes):
        s = b[:n].decode("latin-1")
    else:
        s = str(b)[:n]
    return s


def drop_each(lst):
    """ddmin-style candidates: list with chunks removed (big chunks first)."""
    n = len(lst)
    size = n // 2
    seen = set()
    while size >= 1:
        for i in range(0, n, size):
            cand = lst[:i] + lst[i + size:]
            key = json.dumps(cand, sort_keys=True)
            if key not in seen and len(cand) < n:
                seen.add(key)
                yield cand
        size //= 2
