"""C07 demo 2: with the default UMN.UMNDirHandler every dot-file that the ignore
pattern does not match is parsed as a UMN link file.  A dot-file that merely
contains a line "Port=<not a number>" or "Type=" (nothing after the =) makes
the whole listing die with ValueError / IndexError: no entry of the directory
is listed."""
import io
import os
import shutil
import sys
import tempfile
import traceback

ROOT = os.path.dirname(os.path.dirname(os.path.dirname(os.path.abspath(__file__))))
sys.path.insert(0, ROOT)
os.chdir(ROOT)

import warnings  # noqa: E402

warnings.simplefilter("ignore")

from pygopherd import GopherExceptions, gopherentry, initialization, logger  # noqa: E402
from pygopherd.handlers import UMN, HandlerMultiplexer  # noqa: E402
from pygopherd.handlers import base as hbase  # noqa: E402
from pygopherd.protocols import ProtocolMultiplexer  # noqa: E402

SERVER_NAME = "gopher.example"
SERVER_PORT = 70

# The default handler list (UMN.UMNDirHandler) and the same list with the
# plain dir.DirHandler in its place: "both directory handlers".
HANDLER_LISTS = {
    "UMN.UMNDirHandler": None,
    "dir.DirHandler": (
        "[url.HTMLURLHandler, gophermap.BuckGophermapHandler, "
        "mbox.MaildirFolderHandler, mbox.MaildirMessageHandler, "
        "dir.DirHandler, html.HTMLFileTitleHandler, "
        "mbox.MBoxMessageHandler, mbox.MBoxFolderHandler, file.FileHandler]"
    ),
}


class FakeServer:
    server_name = SERVER_NAME
    server_port = SERVER_PORT

    def __init__(self, config):
        self.config = config


class FakeRequestHandler:
    client_address = ("10.0.0.1", 7777)
    request = None  # not an SSLSocket: plain gopher


_mimetypes_done = False


def make_config(root, handlers):
    """conf/pygopherd.conf, with the document root (and optionally the
    handler list) replaced.  The directory cache is switched off so every
    listing is computed from the directory as it is."""
    global _mimetypes_done
    config = initialization.init_config("conf/pygopherd.conf")
    config.set("pygopherd", "root", root)
    config.set("logger", "logmethod", "none")
    config.set("handlers.dir.DirHandler", "cachetime", "0")
    if handlers:
        config.set("handlers.HandlerMultiplexer", "handlers", handlers)
    logger.init(config)
    initialization.init_exceptions(config)
    if not _mimetypes_done:
        initialization.init_mimetypes(config)
        _mimetypes_done = True
    # pygopherd memoises configuration in module globals; reset them.
    HandlerMultiplexer.handlers = None
    HandlerMultiplexer.rootpath = None
    hbase.rootpath = None
    UMN.extstrip = None
    gopherentry.mapping = None
    gopherentry.eaexts = None
    return config


def gopher(config, selector):
    """Send one plain gopher request through the real protocol + handler
    code, return the raw reply bytes."""
    rfile = io.BytesIO((selector + "\r\n").encode(errors="surrogateescape"))
    wfile = io.BytesIO()
    first = rfile.readline().decode(errors="surrogateescape")
    proto = ProtocolMultiplexer.getProtocol(
        first, FakeServer(config), FakeRequestHandler(), rfile, wfile, config
    )
    proto.handle()
    return wfile.getvalue()


def menu_items(reply):
    """Parse an RFC 1436 menu: (type, name, selector, host, port) per line;
    'i' (info) lines are not items."""
    items = []
    for line in reply.decode(errors="surrogateescape").split("\r\n"):
        if not line or line == ".":
            continue
        fields = line[1:].split("\t")
        fields += [""] * (4 - len(fields))
        if line[0] == "i":
            continue
        items.append((line[0], fields[0], fields[1], fields[2], fields[3]))
    return items


def write(path, data=b"x\n"):
    os.makedirs(os.path.dirname(path), exist_ok=True)
    with open(path, "wb") as fp:
        fp.write(data)


problems = []


def problem(msg):
    problems.append(msg)
    print("VIOLATION:", msg)


def finish():
    if problems:
        print("\n%d violation(s) of C07" % len(problems))
        sys.exit(1)
    print("C07 held on this input")
    sys.exit(0)


def check_directory(config, handler_name, selector, fsdir):
    """Check property C07 for one directory, computing what is visible from
    the statement of the property alone:
      - visible = not a dot-file, not matched by the ignore pattern
        (nothing in these demos is hidden by metadata);
      - each visible entry is in the listing exactly once, nothing else is;
      - every entry kept out of the listing is retrievable by exact selector.
    The plain DirHandler is documented to list dot-files too, so for it a
    dot-file may be either listed once or kept out."""
    import re

    ignorepatt = config.get("handlers.dir.DirHandler", "ignorepatt")
    names = sorted(os.fsdecode(n) for n in os.listdir(os.fsencode(fsdir)))
    base = "" if selector == "/" else selector
    try:
        reply = gopher(config, selector)
    except Exception as exc:
        problem(
            "[%s] listing %r: no listing at all, the request died with %r"
            % (handler_name, selector, exc)
        )
        return
    items = menu_items(reply)
    listed = [item[2] for item in items]
    print("[%s] listing of %r -> %r" % (handler_name, selector, listed))
    expected = set()
    for name in names:
        if name == config.get("handlers.dir.DirHandler", "cachefile"):
            continue  # the server's own cache file
        sel = base + "/" + name
        ignored = re.search(ignorepatt, sel) is not None
        dot = name.startswith(".")
        count = listed.count(sel)
        if not ignored and not dot:
            expected.add(sel)
            if count != 1:
                problem(
                    "[%s] listing %r: visible entry %r appears %d times, expected exactly once"
                    % (handler_name, selector, name, count)
                )
        elif dot and not ignored and handler_name == "dir.DirHandler":
            expected.add(sel)  # documented: may be listed
            if count > 1:
                problem("[%s] %r listed %d times" % (handler_name, name, count))
        elif count:
            problem("[%s] kept-out entry %r is listed" % (handler_name, name))
        if count == 0 and os.path.isfile(os.path.join(fsdir, name)):
            # kept out of the listing: must remain retrievable
            with open(os.path.join(os.fsencode(fsdir), os.fsencode(name)), "rb") as fp:
                content = fp.read()
            try:
                got = gopher(config, sel)
            except Exception as exc:
                got = ("<died: %r>" % exc).encode()
            if got != content:
                problem(
                    "[%s] entry %r is not in the listing of %r and is NOT retrievable "
                    "by its exact selector %r: got %r"
                    % (handler_name, name, selector, sel, got[:80])
                )
    for item in items:
        if item[2] not in expected or item[3] != SERVER_NAME:
            problem(
                "[%s] listing %r contains a line that is not an entry of the directory: %r"
                % (handler_name, selector, item)
            )


root = tempfile.mkdtemp(prefix="c07-2-")
try:
    write(root + "/proj/readme.txt")
    write(root + "/proj/notes.txt")
    write(root + "/proj/.env", b"Host=localhost\nPort=auto\n")
    write(root + "/conf/readme.txt")
    write(root + "/conf/.settings", b"Name=demo\nType=\n")
    for handler_name, handlers in HANDLER_LISTS.items():
        config = make_config(root, handlers)
        check_directory(config, handler_name, "/proj", root + "/proj")
        check_directory(config, handler_name, "/conf", root + "/conf")
finally:
    shutil.rmtree(root, ignore_errors=True)
finish()
