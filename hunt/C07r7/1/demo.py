"""C07: siblings "X?..." / "X|..." of a world-executable file X (documented
"full" handler list, which contains scriptexec.ExecHandler): X is listed once
per sibling, the siblings are never listed and cannot be fetched."""
import os
import sys
import tempfile

# ---- helpers: drive the real pygopherd code in-process ----
import os
import sys
import warnings

warnings.simplefilter("ignore")
ROOT = os.path.dirname(os.path.dirname(os.path.dirname(os.path.abspath(__file__))))
sys.path.insert(0, ROOT)
os.chdir(ROOT)

from pygopherd import gopherentry, initialization, logger, testutil  # noqa: E402
from pygopherd.handlers import HandlerMultiplexer  # noqa: E402
import pygopherd.handlers.base as hbase  # noqa: E402
import pygopherd.handlers.UMN as UMN  # noqa: E402

# The handler list that conf/pygopherd.conf documents as
# "full Pygopherd featureset including scripts and PYG".
FULL = """[url.HTMLURLHandler, gophermap.BuckGophermapHandler,
    mbox.MaildirFolderHandler, mbox.MaildirMessageHandler,
    %s,
    tal.TALFileHandler, html.HTMLFileTitleHandler,
    mbox.MBoxMessageHandler, mbox.MBoxFolderHandler,
    pyg.PYGHandler, scriptexec.ExecHandler,
    file.CompressedFileHandler, file.FileHandler,
    url.URLTypeRewriter]"""
# The default handler list of conf/pygopherd.conf
DEFAULT = """[url.HTMLURLHandler, gophermap.BuckGophermapHandler,
    mbox.MaildirFolderHandler, mbox.MaildirMessageHandler,
    %s, html.HTMLFileTitleHandler,
    mbox.MBoxMessageHandler, mbox.MBoxFolderHandler,
    file.FileHandler]"""
DIRHANDLERS = ["UMN.UMNDirHandler", "dir.DirHandler"]


def make_config(root, handlers=None):
    config = testutil.get_config()  # conf/pygopherd.conf
    config.set("pygopherd", "root", root)
    if handlers:
        config.set("handlers.HandlerMultiplexer", "handlers", handlers)
    config.set("logger", "logmethod", "none")
    logger.init(config)
    initialization.init_mimetypes(config)
    # forget what an earlier configuration left in module globals
    HandlerMultiplexer.handlers = None
    HandlerMultiplexer.rootpath = None
    hbase.rootpath = None
    UMN.extstrip = None
    gopherentry.mapping = None
    gopherentry.eaexts = None
    return config


def request(config, line):
    """Send one request line through the real protocol/handler code."""
    proto = testutil.get_testing_protocol(line, config=config)
    proto.handle()
    return proto.wfile.getvalue()


def listing(config, selector):
    """Selectors of the (non-info) items of the gopher menu of selector, or
    the exception that the request died with."""
    try:
        raw = request(config, selector + "\r\n").decode(errors="surrogateescape")
    except Exception as e:  # the server would drop the connection
        return e
    out = []
    for line in raw.split("\r\n"):
        if not line or line[0] == "i":
            continue
        fields = line.split("\t")
        if line[0] == "3" and len(fields) > 2 and fields[2] == "error.host":
            return RuntimeError("error reply: " + line)
        out.append(fields[1])
    return out
# ---- end of helpers ----

FILES = {
    "plain.txt": b"plain\n",
    "why": b"#!/bin/sh\necho script output $1\n",  # o+x: served by ExecHandler
    "why?.txt": b"because\n",
    "why|notes": b"some notes\n",
}
bad = 0
for dirhandler in DIRHANDLERS:
    root = tempfile.mkdtemp()
    for name, data in FILES.items():
        with open(os.path.join(root, name), "wb") as fp:
            fp.write(data)
    os.chmod(os.path.join(root, "why"), 0o755)
    config = make_config(root, FULL % dirhandler)

    expected = sorted("/" + name for name in FILES)  # no dot-files, nothing ignored
    got = listing(config, "/")
    print("%s: listing of / = %r" % (dirhandler, got))
    if isinstance(got, Exception) or sorted(got) != expected:
        print("  VIOLATION: expected exactly once each: %r" % expected)
        bad += 1
    for name in ("why?.txt", "why|notes"):
        body = request(config, "/" + name + "\r\n")
        if body != FILES[name]:
            print("  VIOLATION: fetching %r by its exact selector returned %r, not the file's content %r"
                  % ("/" + name, body, FILES[name]))
            bad += 1
sys.exit(1 if bad else 0)
