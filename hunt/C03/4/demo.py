#!/usr/bin/env python
"""C03 hunt #4: a NUL byte in the *search string* of a request for an
executable is passed to the child's environment (SEARCHREQUEST) by
scriptexec.ExecHandler.write; subprocess raises "ValueError: embedded null
byte", which nothing catches.

 * Gopher   "/script.sh<TAB><NUL>"                   -> 0 bytes
 * Gopher+  "/script.sh<TAB><NUL><TAB>+"             -> "+-2" and nothing else
 * HTTP     "GET /script.sh?searchrequest=%00"       -> 200 + headers, no body
 * Spartan  "localhost /script.sh 1" + body <NUL>    -> "2 text/plain", no body
each with an unhandled internal error in the server log.  (A NUL in the
selector itself is refused properly; only the search string slips through.)

Handler list: the "full Pygopherd featureset" list documented in
conf/pygopherd.conf (it contains scriptexec.ExecHandler).
Exits 0 iff every request got one well-formed answer and no internal error.
"""
import os
import shutil
import socket
import sys
import tempfile
import threading
import warnings

warnings.filterwarnings("ignore", category=SyntaxWarning)  # vendored simpletal

ROOT = os.path.dirname(os.path.dirname(os.path.dirname(os.path.abspath(__file__))))
sys.path.insert(0, ROOT)
os.chdir(ROOT)

from pygopherd import GopherExceptions, initialization, logger  # noqa: E402
from pygopherd.server import GopherRequestHandler, ThreadingTCPServer  # noqa: E402

FULL_HANDLERS = """[url.HTMLURLHandler, gophermap.BuckGophermapHandler,
            mbox.MaildirFolderHandler, mbox.MaildirMessageHandler,
            UMN.UMNDirHandler,
            tal.TALFileHandler,
            html.HTMLFileTitleHandler,
            mbox.MBoxMessageHandler, mbox.MBoxFolderHandler,
            pyg.PYGHandler, scriptexec.ExecHandler,
            file.CompressedFileHandler, file.FileHandler,
            url.URLTypeRewriter]"""

SCRIPT = "#!/bin/sh\necho \"you searched for: $SEARCHREQUEST\"\n"


def start(docroot):
    config = initialization.init_config("conf/pygopherd.conf")
    config.set("pygopherd", "root", docroot)
    config.set("pygopherd", "timeout", "5")
    config.set("logger", "logmethod", "none")
    config.set("handlers.HandlerMultiplexer", "handlers", FULL_HANDLERS)
    logger.init(config)
    log_lines = []
    logger.log = log_lines.append
    GopherExceptions.init(False)  # keep stderr quiet; errors are still logged
    initialization.init_mimetypes(config)
    server = ThreadingTCPServer(config, ("127.0.0.1", 0), GopherRequestHandler)
    server.daemon_threads = True
    threading.Thread(target=server.serve_forever, daemon=True).start()
    return server, log_lines


def ask(server, data):
    with socket.create_connection(server.server_address[:2], timeout=10) as s:
        s.sendall(data)
        s.shutdown(socket.SHUT_WR)
        out = b""
        while True:
            chunk = s.recv(65536)
            if not chunk:
                return out
            out += chunk


MARK = b"you searched for:"


def gopher_ok(resp):
    # the script's output, or one CRLF-terminated type-3 error line
    if resp.startswith(b"3"):
        return resp.endswith(b"\r\n") and resp.count(b"\r\n") == 1 and resp.count(b"\t") == 3
    return MARK in resp


def gopherplus_ok(resp):
    line, sep, body = resp.partition(b"\r\n")
    if not sep or line[:1] not in b"+-" or not line[1:].lstrip(b"-").isdigit():
        return False
    return line.startswith(b"-") or MARK in body


def http_ok(resp):
    head, sep, body = resp.partition(b"\r\n\r\n")
    if not sep or not head.startswith(b"HTTP/1.0 ") or resp.count(b"HTTP/1.0 ") != 1:
        return False
    return not head.startswith(b"HTTP/1.0 200") or MARK in body


def spartan_ok(resp):
    line, sep, body = resp.partition(b"\r\n")
    if not sep or line[:1] not in b"2345" or line[1:2] != b" ":
        return False
    return (MARK in body) if line.startswith(b"2") else body == b""


def main():
    docroot = tempfile.mkdtemp(prefix="c03-hunt4-")
    try:
        script = os.path.join(docroot, "script.sh")
        with open(script, "w") as f:
            f.write(SCRIPT)
        os.chmod(script, 0o755)

        server, log_lines = start(docroot)
        cases = [
            ("Gopher  (control, search 'abc')", b"/script.sh\tabc\r\n", gopher_ok),
            ("Gopher  search string NUL", b"/script.sh\t\x00\r\n", gopher_ok),
            ("Gopher+ search string NUL", b"/script.sh\t\x00\t+\r\n", gopherplus_ok),
            ("HTTP    searchrequest=%00", b"GET /script.sh?searchrequest=%00 HTTP/1.0\r\n\r\n", http_ok),
            ("Spartan one-byte body NUL", b"localhost /script.sh 1\r\n\x00", spartan_ok),
        ]
        failures = 0
        for name, request, check in cases:
            before = len(log_lines)
            resp = ask(server, request)
            errors = [m for m in log_lines[before:] if "EXCEPTION" in m and "FileNotFound" not in m]
            good = check(resp) and not errors
            print("%s\n    request  %r" % (name, request))
            print("    response (%d bytes): %r" % (len(resp), resp[:100]))
            for m in errors:
                print("    server log: %s" % m)
            print("    -> %s" % ("ok" if good else "VIOLATION"))
            failures += not good
        server.shutdown()
        server.server_close()
    finally:
        shutil.rmtree(docroot, ignore_errors=True)

    if failures:
        print(
            "\nC03 violated: %d requests with a NUL in the search string ended in an "
            "unhandled ValueError; the answer is empty or stops after the status line." % failures
        )
        return 1
    print("\nall requests answered with one well-formed response")
    return 0


if __name__ == "__main__":
    sys.exit(main())
