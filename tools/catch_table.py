#!/venv/bin/python
"""catch_table.py <sensitivity log>...: markdown table (property | change | verdict | first oracle) from the
output of `./check selftest-sensitivity`."""
import json, re, sys
rows = {}
for path in sys.argv[1:]:
    for line in open(path, errors="replace"):
        m = re.match(r"^(CAUGHT(?:@\w+)?|MISSED|PATCH-FAILED|ERROR\(rc=\d+\))\s+(C\d\d)\s+(\S+)\s+([\d.]+)s\s*(.*)$", line)
        if not m:
            continue
        verdict, prop, name, dt, rest = m.groups()
        oracle = ""
        mo = re.search(r'"oracle": "([^"]+)"', rest)
        if mo:
            oracle = mo.group(1)
        rows[(prop, name)] = (verdict, oracle)
print("| property | change | verdict | oracle that fired |")
print("|---|---|---|---|")
for (prop, name), (verdict, oracle) in sorted(rows.items()):
    print("| %s | `%s` | %s | %s |" % (prop, name, verdict.lower(), oracle))
n = len(rows)
c = sum(1 for v, _ in rows.values() if v.startswith("CAUGHT"))
cb = sum(1 for v, _ in rows.values() if v.startswith("CAUGHT@"))
print("\n%d changes, %d caught (%d of them only on the commit they were written for)." % (n, c, cb))
