"""File-system seam: real files in a scratch tree, interposed entry points.

While installed, os.stat/lstat/listdir/unlink/remove/rename/replace and
builtins.open/io.open are wrapped.  Calls whose path is outside the scratch
root pass straight through.  Inside the root a wrapper
  (1) is a scheduler yield point,
  (2) consults the fault plan,
  (3) delegates to the real call,
  (4) post-processes (readdir permutation, simulated timestamps, torn writes,
      open-file table).
"""
import builtins
import re
import errno
import io
import os
import random
import stat as statmod
import weakref

from . import sched
from .tape import stable_hash

_real = {
    "stat": os.stat, "lstat": os.lstat, "listdir": os.listdir, "unlink": os.unlink,
    "remove": os.remove, "rename": os.rename, "replace": os.replace,
    "open": builtins.open, "utime": os.utime, "scandir": os.scandir, "os_open": os.open,
}
real_open = builtins.open
real_stat = os.stat
real_lstat = os.lstat
real_listdir = os.listdir
real_utime = os.utime

ERRNO = {
    "ENOENT": errno.ENOENT, "EACCES": errno.EACCES, "ELOOP": errno.ELOOP,
    "EIO": errno.EIO, "EMFILE": errno.EMFILE, "ENXIO": errno.ENXIO, "ENOSPC": errno.ENOSPC,
    "ENOTDIR": errno.ENOTDIR,
}


_TMPNAME = re.compile(r"\.\d+-\d+\.tmp$")


def _mk_oserror(name, path):
    e = ERRNO[name]
    return OSError(e, os.strerror(e), path)


class Fault:
    """One planned file-system fault.

    op:    'stat' | 'open' | 'write' | 'listdir'
    rel:   path relative to the scratch root ('' = the root itself), None = any, or 'prefix*'
    kind:  for stat/open: errno name; for write: 'torn' | 'crash' | 'enospc'
    nth:   fire on the nth matching call (0-based); 'all' = every matching call
    after_listed: only fire once the name was returned by a listdir (C12)
    cut:   for write faults: number of bytes that reach the file first
    mode:  for open faults: restrict to read ('r') or write ('w') opens
    """

    def __init__(self, op, rel, kind, nth=0, after_listed=False, cut=None, mode=None,
                 cuts=None):
        self.op = op
        self.rel = rel
        self.kind = kind
        self.nth = nth
        self.after_listed = after_listed
        self.cut = cut
        self.cuts = cuts
        self.mode = mode
        self.seen = 0
        self.fired = 0

    def to_json(self):
        return {k: getattr(self, k) for k in
                ("op", "rel", "kind", "nth", "after_listed", "cut", "cuts", "mode")}

    @staticmethod
    def from_json(d):
        return Fault(**d)


class SimFile:
    """Wrapper around a real file object opened through the seam."""

    def __init__(self, seam, f, path, rel, mode, created, actor):
        self._seam = seam
        self._f = f
        self._path = path
        self._rel = rel
        self._mode = mode
        self._created = created
        self._actor = actor
        self._writable = any(c in mode for c in "wax+")
        self._dirty = created or ("w" in mode)
        self.sim_closed = False
        self.closed_by_gc = False
        self._dead = False
        self._written = 0
        seam.open_table.append((weakref.ref(self), rel))

    # -- delegation
    def __getattr__(self, name):
        return getattr(self._f, name)

    def __iter__(self):
        return self

    def __next__(self):
        line = self._f.readline()
        if not line:
            raise StopIteration
        return line

    def __enter__(self):
        return self

    def __exit__(self, *a):
        self.close()

    @property
    def closed(self):
        return self._f.closed

    def _maybe_stall(self):
        f = self._seam._match("read", self._rel)
        if f is not None and f.kind == "stall" and self._seam.sim is not None:
            self._seam.count("stalled_reader")
            self._seam.sim.sleep(f.cut or 1.0)

    def read(self, *a):
        self._seam._yield("read")
        self._maybe_stall()
        return self._f.read(*a)

    def readline(self, *a):
        # a line-by-line scan (HTML title, link file, gophermap, mailbox) can be interleaved with another
        # worker's between any two lines
        self._seam._yield("read")
        return self._f.readline(*a)

    def readlines(self, *a):
        self._seam._yield("read")
        return self._f.readlines(*a)

    def readinto(self, b):
        self._seam._yield("read")
        self._maybe_stall()
        return self._f.readinto(b)

    def _check_dead(self):
        if self._dead:
            raise sched.SimCrash()

    def write(self, data):
        seam = self._seam
        self._check_dead()
        if getattr(self, "_swallow", False):
            return len(data)     # the disk is full: nothing more reaches the file
        seam._yield("write")
        fault = seam._match("write", self._rel, mode="w")
        n = len(data)
        self._dirty = True
        if fault is None:
            r = self._f.write(data)
            self._written += n
            return r
        kind = fault.kind
        if kind == "torn":
            raw = fault.cuts or [int(fr * n) for fr in (getattr(fault, "fracs", None) or [])]
            cuts = sorted(set(c for c in raw if 0 < c < n))
            pos = 0
            for c in cuts + [n]:
                self._f.write(data[pos:c])
                self._f.flush()
                pos = c
                seam.count("torn_write_chunk")
                if c < n:
                    seam._yield("torn")
            self._written += n
            return n
        cut = min(max(fault.cut or 0, 0), n)
        self._f.write(data[:cut])
        self._f.flush()
        self._written += cut
        if kind == "enospc":
            seam.count("enospc")
            raise _mk_oserror("ENOSPC", self._path)
        if kind == "enospc_close":
            # the short write is only reported when the file is closed (buffered tail, NFS, quota)
            seam.count("enospc")
            self._pending_close_error = True
            self._swallow = True
            return n
        if kind == "crash":
            seam.count("crash_in_write")
            self._dead = True
            seam.crashed_writers.append(self)
            try:
                self._f.close()
            finally:
                seam._stamp(self._path, self._created)
                self.sim_closed = True
            raise sched.SimCrash()
        raise ValueError(kind)

    def flush(self):
        if self._dead:
            return
        return self._f.flush()

    def close(self):
        if self.sim_closed:
            return
        self.sim_closed = True
        try:
            self._f.close()
        finally:
            if self._dirty:
                self._seam._stamp(self._path, self._created)
        self._seam._yield("close")
        if getattr(self, "_pending_close_error", False):
            self._pending_close_error = False
            raise _mk_oserror("ENOSPC", self._path)

    def __del__(self):
        try:
            if not self.sim_closed:
                self.closed_by_gc = True
                self.sim_closed = True
                f = self.__dict__.get("_f")
                if f is not None:
                    f.close()
                    if self._dirty and not self._seam.uninstalled:
                        self._seam._stamp(self._path, self._created)
        except BaseException:
            pass


class FsSeam:
    def __init__(self, sim, root, run_seed=0):
        self.sim = sim
        self.root = os.path.realpath(root)
        self.rootb = os.fsencode(self.root)
        self.run_seed = run_seed
        self.epoch = 0
        self.faults = []
        self.fd_paths = {}
        self.ctime_of = {}
        self.listed = set()
        self.open_table = []
        self.crashed_writers = []
        self.counters = {}
        self.oplog = []     # (op, rel) for monitors that want it
        self.log_ops = False
        self.uninstalled = False
        self.natural_order = False
        self.on_listdir = None  # hook(rel, names) -> None ; used by "vanish" admin
        self.forced_order = {}  # rel -> explicit enumeration order (exhaustive permutations)
        self.watch_open = None  # suffix of paths whose size at open is recorded
        self.open_sizes = []

    # ------------------------------------------------------------ helpers
    def count(self, k, n=1):
        self.counters[k] = self.counters.get(k, 0) + n

    def _yield(self, kind):
        s = self.sim
        if s is not None:
            s.yield_point(kind)

    def _rel(self, path):
        """Relative path under the scratch root, or None when outside."""
        if isinstance(path, int):
            return None
        try:
            p = os.fspath(path)
        except TypeError:
            return None
        if isinstance(p, bytes):
            if p == self.rootb:
                return ""
            if p.startswith(self.rootb + b"/"):
                return os.fsdecode(p[len(self.rootb) + 1:])
            return None
        if p == self.root:
            return ""
        if p.startswith(self.root + "/"):
            return p[len(self.root) + 1:]
        return None

    def _match(self, op, rel, mode=None):
        for f in self.faults:
            if f.op != op and not (f.op == "any" and op in ("stat", "open")):
                continue
            if f.rel is not None and f.rel != rel and not (f.rel.endswith("*") and rel.startswith(f.rel[:-1])):
                continue
            if f.mode is not None and mode is not None and f.mode != mode:
                continue
            if f.after_listed and rel not in self.listed:
                continue
            i = f.seen
            f.seen += 1
            if f.nth == "all" or f.nth == i:
                f.fired += 1
                self.count("fault_%s_%s" % (op, f.kind))
                # (temporary names carry the process and thread id: not part of the event)
                self.sim and self.sim.note("fault", op, _TMPNAME.sub(".<pid>-<tid>.tmp", rel), f.kind)
                return f
        return None

    def now(self):
        return self.sim.now if self.sim is not None else sched.EPOCH

    def _vanish(self, path):
        """A concurrent admin deletes the entry exactly here."""
        try:
            _real["unlink"](path)
            self._stamp_parent(path)
            self.count("vanished")
        except OSError:
            pass

    def _stamp(self, path, created=False, parent=False):
        """Give path (and optionally its parent directory) the simulated mtime."""
        t = self.now()
        try:
            real_utime(path, (t, t), follow_symlinks=False)
        except (OSError, NotImplementedError):
            try:
                real_utime(path, (t, t))
            except OSError:
                pass
        if created or parent:
            try:
                real_utime(os.path.dirname(path), (t, t))
            except OSError:
                pass

    @staticmethod
    def _fix_stat(st, ctime=None):
        """Access and change time follow the (simulated) modification time, unless the inode was changed
        without its contents (chmod, chown, link, utime by somebody): then the change time is that moment."""
        m = st.st_mtime
        mns = st.st_mtime_ns
        mi = int(m)
        c = m if ctime is None or ctime < m else ctime
        return os.stat_result((st.st_mode, st.st_ino, st.st_dev, st.st_nlink, st.st_uid,
                               st.st_gid, st.st_size, mi, mi, int(c), m, m, c, mns, mns, int(c * 1e9)))

    def _ctime(self, path):
        if not self.ctime_of:
            return None
        try:
            return self.ctime_of.get(os.path.abspath(os.fsdecode(os.fspath(path))))
        except (TypeError, ValueError):
            return None

    def inode_changed(self, path):
        """An admin's chmod / chown / ln on path, now."""
        self.ctime_of[os.path.abspath(os.fsdecode(os.fspath(path)))] = self.now()

    # ------------------------------------------------------------ wrappers
    def w_stat(self, path, *a, **kw):
        rel = self._rel(path)
        if rel is None:
            return _real["stat"](path, *a, **kw)
        self._yield("stat")
        if self.log_ops:
            self.oplog.append(("stat", rel))
        f = self._match("stat", rel)
        if f is not None:
            if f.kind == "vanish":
                self._vanish(path)
            else:
                raise _mk_oserror(f.kind, path)
        return self._fix_stat(_real["stat"](path, *a, **kw), self._ctime(path))

    def w_lstat(self, path, *a, **kw):
        rel = self._rel(path)
        if rel is None:
            return _real["lstat"](path, *a, **kw)
        self._yield("stat")
        f = self._match("stat", rel)
        if f is not None:
            if f.kind == "vanish":
                self._vanish(path)
            else:
                raise _mk_oserror(f.kind, path)
        return self._fix_stat(_real["lstat"](path, *a, **kw), self._ctime(path))

    def permute(self, rel, names):
        names = sorted(names)
        if self.natural_order:
            return names
        fo = self.forced_order.get(rel)
        if fo:
            isb = bool(names) and isinstance(names[0], bytes)
            want = [(os.fsencode(x) if isb else os.fsdecode(x)) for x in fo]
            head = [x for x in want if x in names]
            return head + [x for x in names if x not in head]
        key = stable_hash(self.run_seed, self.epoch, rel,
                          tuple(os.fsdecode(n) if isinstance(n, bytes) else n for n in names))
        random.Random(key).shuffle(names)
        return names

    def w_listdir(self, path="."):
        rel = self._rel(path)
        if rel is None:
            return _real["listdir"](path)
        self._yield("listdir")
        if self.log_ops:
            self.oplog.append(("listdir", rel))
        f = self._match("listdir", rel)
        if f is not None:
            raise _mk_oserror(f.kind, path)
        names = self.permute(rel, _real["listdir"](path))
        self.count("listdir")
        for n in names:
            s = os.fsdecode(n) if isinstance(n, bytes) else n
            self.listed.add((rel + "/" + s) if rel else s)
        if self.on_listdir is not None:
            self.on_listdir(rel, names)
        return names

    def w_unlink(self, path, *a, **kw):
        rel = self._rel(path)
        if rel is None:
            return _real["unlink"](path, *a, **kw)
        self._yield("unlink")
        f = self._match("unlink", rel)
        if f is not None:
            raise _mk_oserror(f.kind, path)
        r = _real["unlink"](path, *a, **kw)
        self._stamp_parent(path)
        return r

    def _stamp_parent(self, path):
        t = self.now()
        try:
            real_utime(os.path.dirname(os.fspath(path)), (t, t))
        except OSError:
            pass

    def w_rename(self, src, dst, *a, **kw):
        rs, rd = self._rel(src), self._rel(dst)
        if rs is None and rd is None:
            return _real["rename"](src, dst, *a, **kw)
        self._yield("rename")
        r = _real["rename"](src, dst, *a, **kw)
        self._stamp_parent(src)
        self._stamp_parent(dst)
        return r

    def w_replace(self, src, dst, *a, **kw):
        rs, rd = self._rel(src), self._rel(dst)
        if rs is None and rd is None:
            return _real["replace"](src, dst, *a, **kw)
        self._yield("rename")
        r = _real["replace"](src, dst, *a, **kw)
        self._stamp_parent(src)
        self._stamp_parent(dst)
        return r

    def w_os_open(self, path, flags, *a, **kw):
        """Low-level open (tempfile.mkstemp, mailbox): a scheduling point; the descriptor is remembered so
        that a later open(fd, ...) / os.fdopen(fd) is wrapped like a file opened by name."""
        rel = self._rel(path) if not kw.get("dir_fd") else None
        if rel is None:
            return _real["os_open"](path, flags, *a, **kw)
        self._yield("open")
        wr = bool(flags & (os.O_WRONLY | os.O_RDWR))
        if self.log_ops:
            self.oplog.append(("open", rel, "w" if wr else "r"))
        f = self._match("open", rel, mode="w" if wr else "r")
        if f is not None:
            if f.kind == "vanish":
                self._vanish(path)
            else:
                raise _mk_oserror(f.kind, path)
        created = bool(flags & os.O_CREAT) and not os.path.lexists(path)
        fd = _real["os_open"](path, flags, *a, **kw)
        self.count("open_w" if wr else "open_r")
        if created:
            self._stamp(os.fspath(path), created=True)
        self.fd_paths[fd] = (os.fspath(path), rel, created)
        return fd

    def w_open(self, file, mode="r", *a, **kw):
        if isinstance(file, int) and file in self.fd_paths:
            path, rel, created = self.fd_paths.pop(file)
            fo = real_open(file, mode, *a, **kw)
            return SimFile(self, fo, path, rel, mode, created, self.sim.me() if self.sim else None)
        rel = self._rel(file)
        if rel is None:
            return real_open(file, mode, *a, **kw)
        self._yield("open")
        if self.log_ops:
            self.oplog.append(("open", rel, mode))
        wr = any(c in mode for c in "wax+")
        f = self._match("open", rel, mode="w" if wr else "r")
        if f is not None:
            if f.kind == "vanish":
                self._vanish(file)
            elif f.kind == "shrink":
                # somebody put a shorter file in its place after the caller last looked at it
                try:
                    sz = os.path.getsize(file)
                    with real_open(file, "rb+") as fh:
                        fh.truncate(int(sz * (f.cut if f.cut is not None else 0.5)))
                    self.count("shrunk_before_open")
                except OSError:
                    pass
            else:
                raise _mk_oserror(f.kind, file)
        try:
            st0 = _real["stat"](file)
        except OSError:
            st0 = None
        if st0 is not None and statmod.S_ISFIFO(st0.st_mode) and self.sim is not None:
            # opening a FIFO with no peer blocks for ever
            self.count("fifo_open_blocked")
            self.sim.note("fifo-open-blocked", rel)
            self.sim.block(lambda: False, None, "fifo-open")
            raise sched.SimAbort()
        created = False
        if wr:
            created = not os.path.lexists(file)
        fo = real_open(file, mode, *a, **kw)
        self.count("open_w" if wr else "open_r")
        if self.watch_open is not None and self.watch_open in rel:
            try:
                self.open_sizes.append((rel, "w" if wr else "r", os.fstat(fo.fileno()).st_size))
            except OSError:
                pass
        if wr and ("w" in mode) and not created:
            # truncation is a modification
            self._stamp(os.fspath(file))
        elif created:
            self._stamp(os.fspath(file), created=True)
        return SimFile(self, fo, os.fspath(file), rel, mode, created, self.sim.me() if self.sim else None)

    # ------------------------------------------------------------ install
    def install(self):
        os.stat = self.w_stat
        os.lstat = self.w_lstat
        os.listdir = self.w_listdir
        os.unlink = self.w_unlink
        os.remove = self.w_unlink
        os.rename = self.w_rename
        os.replace = self.w_replace
        builtins.open = self.w_open
        io.open = self.w_open
        os.open = self.w_os_open

    def uninstall(self):
        os.stat = _real["stat"]
        os.lstat = _real["lstat"]
        os.listdir = _real["listdir"]
        os.unlink = _real["unlink"]
        os.remove = _real["remove"]
        os.rename = _real["rename"]
        os.replace = _real["replace"]
        builtins.open = real_open
        io.open = real_open
        os.open = _real["os_open"]
        self.uninstalled = True

    # ------------------------------------------------------------ checks
    def leaked_files(self):
        """Files opened through the seam that are still referenced and open
        (files dropped without close() are closed by their finaliser, as in
        the real interpreter, and do not count once collected)."""
        out = []
        for ref, rel in self.open_table:
            f = ref()
            if f is not None and not f.sim_closed:
                out.append(f)
        return out


# ---------------------------------------------------------------- world utils
def write_file(path, data, mtime, mode=None):
    with real_open(path, "wb") as f:
        f.write(data)
    if mode is not None:
        os.chmod(path, mode)
    real_utime(path, (mtime, mtime))


def stamp_tree(root, mtime):
    for d, dirs, files in os.walk(root):
        for n in files:
            try:
                real_utime(os.path.join(d, n), (mtime, mtime), follow_symlinks=False)
            except (OSError, NotImplementedError):
                pass
        real_utime(d, (mtime, mtime))
