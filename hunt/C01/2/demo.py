#!/usr/bin/env python
"""
C01 hunt, finding 2: a gophermap line whose selector climbs out of the root
makes BuckGophermapHandler stat the outside path and read its Gopher+ sidecar
files (.abstract, .keywords, .ask, .3d), and the menu sent to the client shows
the result.  Shipped DEFAULT configuration and handler list; no symlinks.

gophermap.py, prepare():   if self.vfs.exists(selector):
                               entry.populatefromvfs(self.vfs, selector)
The selector comes straight from the gophermap text and is never passed
through isrequestsecure(); VFS_Real.getfspath() is root + selector.

The check is the property itself: same document root, two different states of
the file system outside it -> the response must be byte-identical and nothing
outside may be opened.  Exits 0 if that holds.
"""
import io
import os
import sys
import warnings

WT = os.path.dirname(os.path.dirname(os.path.dirname(os.path.abspath(__file__))))
sys.path.insert(0, WT)
os.chdir(WT)
warnings.simplefilter("ignore")

import shutil  # noqa: E402
import tempfile  # noqa: E402
import zipfile  # noqa: E402

import pygopherd.handlers.base as hbase  # noqa: E402
from pygopherd import initialization, logger, testutil  # noqa: E402
from pygopherd.handlers import HandlerMultiplexer  # noqa: E402

# ---------------------------------------------------------------- harness ---

WATCH = {"dir": None, "events": []}
FS_EVENTS = {
    "open", "os.listdir", "os.scandir", "os.mkdir", "os.remove", "os.rename",
    "os.rmdir", "os.chmod", "os.truncate", "os.utime", "os.link", "os.symlink",
}


def _audit(event, args):
    watched = WATCH["dir"]
    if watched is None or event not in FS_EVENTS or not args:
        return
    path = args[0]
    if isinstance(path, bytes):
        path = os.fsdecode(path)
    if not isinstance(path, str):
        return
    full = os.path.realpath(os.path.join(os.getcwd(), path))
    if full == watched or full.startswith(watched + os.sep):
        WATCH["events"].append("%s(%r)" % (event, path))


sys.addaudithook(_audit)


class KeepOpen(io.BytesIO):
    def close(self):
        pass


class FakeServer:
    server_name = "gopher.example"
    server_port = 70

    def __init__(self, config):
        self.config = config


def make_config(conffile, root, handlers=None):
    # conffile is one of the two configuration files shipped in conf/
    config = initialization.init_config(os.path.join(WT, "conf", conffile))
    config.set("pygopherd", "root", root)
    config.set("logger", "logmethod", "none")
    if handlers:
        config.set("handlers.HandlerMultiplexer", "handlers", handlers)
    logger.init(config)
    cwd = os.getcwd()
    os.chdir(WT)  # the mimetypes option is "./conf/mime.types:..."
    initialization.init_mimetypes(config)
    os.chdir(cwd)
    return config


def request(config, line, outside):
    """One request through the real GopherRequestHandler.handle()."""
    HandlerMultiplexer.handlers = None
    HandlerMultiplexer.rootpath = None
    hbase.rootpath = None
    rfile, wfile = KeepOpen(line), KeepOpen()
    handler = testutil.MockRequestHandler(
        testutil.MockRequest(rfile, wfile), ("10.0.0.1", 7777), FakeServer(config)
    )
    WATCH["events"] = []
    WATCH["dir"] = os.path.realpath(outside)
    try:
        handler.handle()
    finally:
        WATCH["dir"] = None
    return wfile.getvalue(), list(WATCH["events"])


# --------------------------------------------------------------- scenario ---

tmp = tempfile.mkdtemp(prefix="c01-hunt2-")
failures = []
try:
    root = os.path.join(tmp, "root")
    outside = os.path.join(tmp, "outside")
    os.makedirs(os.path.join(root, "menu"))
    os.mkdir(outside)
    with open(os.path.join(root, "menu", "gophermap"), "w") as f:
        f.write("Welcome\n")
        f.write("0relative link\t../../outside/secret.txt\n")
        f.write("1absolute link\t/../outside\n")

    def state_a():
        with open(os.path.join(outside, "secret.txt"), "w") as f:
            f.write("x" * 5000)
        with open(os.path.join(outside, "secret.txt.abstract"), "w") as f:
            f.write("SECRET-ABSTRACT-OF-FILE\n")
        with open(os.path.join(outside, ".abstract"), "w") as f:
            f.write("SECRET-ABSTRACT-OF-DIRECTORY\n")

    def state_b():
        for name in os.listdir(outside):
            os.remove(os.path.join(outside, name))

    config = make_config("pygopherd.conf", root)  # shipped default handler list
    for what, line in [
        ("plain Gopher", b"/menu\r\n"),
        ("Gopher+ directory with attributes", b"/menu\t$\r\n"),
    ]:
        state_a()
        resp_a, ev_a = request(config, line, outside)
        state_b()
        resp_b, ev_b = request(config, line, outside)
        print("== %s, request %r" % (what, line))
        print("   outside populated:\n      " + resp_a.decode().replace("\n", "\n      "))
        print("   outside empty:\n      " + resp_b.decode().replace("\n", "\n      "))
        print("   outside paths opened: %s" % (sorted(set(ev_a + ev_b)) or "none"))
        if resp_a != resp_b:
            failures.append("%s: response depends on files outside the root" % what)
        if b"SECRET-ABSTRACT" in resp_a:
            failures.append(
                "%s: content of files outside the root was sent to the client" % what
            )
        if ev_a or ev_b:
            failures.append(
                "%s: opened outside the root: %s" % (what, sorted(set(ev_a + ev_b)))
            )
finally:
    os.chdir(WT)
    shutil.rmtree(tmp, ignore_errors=True)

if failures:
    print("\nPROPERTY C01 VIOLATED:")
    for f in failures:
        print(" - " + f)
    sys.exit(1)
print("C01 held for these cases")
sys.exit(0)
