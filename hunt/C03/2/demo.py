#!/usr/bin/env python
"""C03 hunt #2: a request line carrying a decimal number of more than 4300
digits is never answered.

 * mailbox message selector  /box.mbox|/MBOX-MESSAGE/<5000 digits>
   (mbox.MessageHandler.canhandlerequest: int() of the matched digits)
 * Spartan request line      localhost /hello.txt <5000 zeros>
   (SpartanProtocol.handle: int(content_length) after only isdigit())

Python >= 3.11 (and the security releases of 3.7-3.10) refuse to convert such
strings: int() raises ValueError, nobody catches it, and the connection is
closed after zero bytes.  Default handler list and protocol list.
Exits 0 iff every request got one well-formed answer.
"""
import os
import shutil
import socket
import sys
import tempfile
import threading
import warnings

warnings.filterwarnings("ignore", category=SyntaxWarning)  # vendored simpletal

ROOT = os.path.dirname(os.path.dirname(os.path.dirname(os.path.abspath(__file__))))
sys.path.insert(0, ROOT)
os.chdir(ROOT)

from pygopherd import GopherExceptions, initialization, logger  # noqa: E402
from pygopherd.server import GopherRequestHandler, ThreadingTCPServer  # noqa: E402

MBOX = (
    b"From alice@example.com Mon Jan  1 00:00:00 2001\n"
    b"From: alice@example.com\nSubject: first message\n\nHello Bob.\n\n"
    b"From bob@example.com Mon Jan  1 01:00:00 2001\n"
    b"From: bob@example.com\nSubject: second message\n\nHello Alice.\n"
)


def start(docroot):
    config = initialization.init_config("conf/pygopherd.conf")  # defaults
    config.set("pygopherd", "root", docroot)
    config.set("pygopherd", "timeout", "5")
    config.set("logger", "logmethod", "none")
    logger.init(config)
    log_lines = []
    logger.log = log_lines.append
    GopherExceptions.init(False)  # keep stderr quiet; errors are still logged
    initialization.init_mimetypes(config)
    server = ThreadingTCPServer(config, ("127.0.0.1", 0), GopherRequestHandler)
    server.daemon_threads = True
    threading.Thread(target=server.serve_forever, daemon=True).start()
    return server, log_lines


def ask(server, data):
    with socket.create_connection(server.server_address[:2], timeout=10) as s:
        s.sendall(data)
        s.shutdown(socket.SHUT_WR)
        out = b""
        while True:
            chunk = s.recv(65536)
            if not chunk:
                return out
            out += chunk


def gopher_error_or_doc(resp):
    # either the message text or a single, CRLF-terminated type-3 error line
    if resp.startswith(b"3"):
        return resp.endswith(b"\r\n") and resp.count(b"\r\n") == 1 and resp.count(b"\t") == 3
    return len(resp) > 0


def gopherplus_ok(resp):
    line, sep, _ = resp.partition(b"\r\n")
    return bool(sep) and line[:1] in b"+-" and line[1:].lstrip(b"-").isdigit()


def http_ok(resp):
    head, sep, _ = resp.partition(b"\r\n\r\n")
    return bool(sep) and head.startswith(b"HTTP/1.0 ") and resp.count(b"HTTP/1.0 ") == 1


def spartan_ok(resp):
    line, sep, _ = resp.partition(b"\r\n")
    return bool(sep) and line[:1] in b"2345" and line[1:2] == b" "


def main():
    docroot = tempfile.mkdtemp(prefix="c03-hunt2-")
    try:
        with open(os.path.join(docroot, "box.mbox"), "wb") as f:
            f.write(MBOX)
        with open(os.path.join(docroot, "hello.txt"), "w") as f:
            f.write("hello world\n")

        server, log_lines = start(docroot)
        cases = []
        for ndigits in (4000, 5000):  # 4000: control, below the interpreter limit
            num = b"7" * ndigits
            zeros = b"0" * ndigits
            cases += [
                ("Gopher  mbox message number of %d digits" % ndigits,
                 b"/box.mbox|/MBOX-MESSAGE/" + num + b"\r\n", gopher_error_or_doc),
                ("Gopher+ mbox message number of %d digits" % ndigits,
                 b"/box.mbox|/MBOX-MESSAGE/" + num + b"\t+\r\n", gopherplus_ok),
                ("HTTP    mbox message number of %d digits" % ndigits,
                 b"GET /box.mbox%7C/MBOX-MESSAGE/" + num + b" HTTP/1.0\r\n\r\n", http_ok),
                ("Spartan content-length written with %d zeros" % ndigits,
                 b"localhost /hello.txt " + zeros + b"\r\n", spartan_ok),
            ]
        failures = 0
        for name, request, check in cases:
            before = len(log_lines)
            resp = ask(server, request)
            errors = [m for m in log_lines[before:] if "EXCEPTION" in m and "FileNotFound" not in m]
            good = check(resp) and not errors
            shown = request if len(request) < 80 else request[:34] + b"..." + request[-20:]
            print("%s\n    request  %r" % (name, shown))
            print("    response (%d bytes): %r" % (len(resp), resp[:60] + (b"..." if len(resp) > 60 else b"")))
            for m in errors:
                print("    server log: %s" % m[:150])
            print("    -> %s" % ("ok" if good else "VIOLATION"))
            failures += not good
        server.shutdown()
        server.server_close()
    finally:
        shutil.rmtree(docroot, ignore_errors=True)

    if failures:
        print(
            "\nC03 violated: %d request lines got no response at all "
            "(unhandled ValueError from int() on an over-long digit string)." % failures
        )
        return 1
    print("\nall requests answered with one well-formed response")
    return 0


if __name__ == "__main__":
    sys.exit(main())
