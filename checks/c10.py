"""C10 - the directory cache is transparent and never older than its lifetime.

A history of directory mutations, clock advances and listing requests through
any protocol runs against ONE long-lived server.  Every mutation is stamped
with the simulated clock and the tree state after it is kept (state_k, live
during [t_k, t_{k+1})).

Oracle (over the recorded history): a listing served at time `now` with
lifetime L must equal the reference rendering (same protocol, fresh server,
cachetime 0) of SOME state that was live at an instant in (now - L, now];
for L = 0 only the current state qualifies.  This one condition covers
identity with the listing at write time whichever protocol wrote the cache,
never using an entry older than L, no refresh of age on a hit, and L = 0.
"""
import os
import random
import shutil

from simkit import harness, proto, sched, world, fs as simfs, net as simnet
from simkit.tape import Tape
from . import common
from .common import CACHEFILE

PROPERTY = "C10"
LEVEL = "exploration"
RUNS = {"quick": 1500, "thorough": 30000}
BATCH = 15
RULE = ("seeded histories of 5-40 operations (list via any protocol, create/delete/rename/rewrite a file, "
        "edit .names/.cap/.abstract metadata, advance the clock by amounts on both sides of the lifetime) on "
        "1-3 directories with lifetime in {0,1,2,180,3600}; non-trivial = at least one listing was served from "
        "the cache AND at least one mutation happened; distinct = distinct (lifetime, handler list, sequence of "
        "(op kind, hit/miss/stale-candidate count) abstracted history) hashes")
REAL = common.REAL
STUB = common.STUB
ASSUMPTIONS = [
    "the simulated clock is monotone (forward jumps only); file and directory mtimes follow it",
    "requests are sequential here (concurrent cache access is C11/C14)",
]
PROBES_REQUIRED = ["cache_hit_served", "cache_hit_cross_protocol", "stale_state_was_candidate",
                   "expired_entry_not_used"]

LIFETIMES = [0, 1, 2, 180, 180, 3600]
# a violation of this class never hides a different one later in the same history
KNOWN_CLASS = "entries-cached-but-own-abstract-fresh"
PROTOS = proto.LISTING_PROTOCOLS
NAMES = ["alpha.txt", "beta.html", "gamma", "delta.txt", "notes.txt", "zeta.jpg", "index.html", "omega.md"]


def _deltas(rng, L):
    base = [0.0, 0.0, 0.4, 1.0, 5.0]
    if L > 0:
        base += [L - 1, L - 0.5, L, L + 0.5, L + 1, 2 * L, L / 2.0]
    base += [100000.0]
    # whole days plus less than the lifetime (age arithmetic that wraps or truncates)
    base += [86400.0 * rng.choice([1, 2, 7]) + rng.choice([0.0, 1.0, L / 2.0, max(0.0, L - 1.0)]),
             3600.0 * rng.choice([1, 24, 25]), 65536.0 + rng.choice([0.0, L / 2.0])]
    return max(0.0, rng.choice(base))


def gen(seed, index, tier):
    rng = random.Random(seed)
    L = rng.choice(LIFETIMES)
    ndirs = rng.randrange(1, 4)
    dirs = ["d%d" % i for i in range(ndirs)]
    spec = []
    present = {}
    for d in dirs:
        spec.append({"p": d, "k": "dir"})
        names = rng.sample(NAMES, rng.randrange(1, 5))
        present[d] = set(names)
        for n in names:
            spec.append(world.gen_file_entry(rng, d + "/" + n))
        if rng.random() < 0.3:
            spec.append({"p": d + "/sub", "k": "dir"})
            spec.append({"p": d + "/sub/inner.txt", "k": "file", "d": "inner\n"})
    listable = dirs + ([""] if rng.random() < 0.3 else [])
    ops = []
    n = rng.randrange(5, 41 if tier == "thorough" else 25)

    def mutation():
        d = rng.choice(dirs)
        r = rng.random()
        if r < 0.3 or not present[d]:
            cand = [x for x in NAMES if x not in present[d]]
            if not cand:
                return {"op": "rewrite", "dir": d, "name": rng.choice(sorted(present[d])),
                        "size": rng.choice([0, 3, 2000, 5000])}
            nm = rng.choice(cand)
            present[d].add(nm)
            return {"op": "create", "dir": d, "name": nm, "size": rng.choice([0, 3, 2000])}
        if r < 0.5:
            nm = rng.choice(sorted(present[d]))
            present[d].discard(nm)
            return {"op": "delete", "dir": d, "name": nm}
        if r < 0.62:
            cand = [x for x in NAMES if x not in present[d]]
            if cand:
                a = rng.choice(sorted(present[d]))
                b = rng.choice(cand)
                present[d].discard(a)
                present[d].add(b)
                return {"op": "rename", "dir": d, "name": a, "to": b}
        if r < 0.75:
            return {"op": "rewrite", "dir": d, "name": rng.choice(sorted(present[d])),
                    "size": rng.choice([0, 3, 2000, 5000])}
        if r < 0.83 and len(dirs) >= 2:
            a, b = rng.sample(dirs, 2)
            present[a], present[b] = present[b], present[a]
            return {"op": "swapdirs", "dir": a, "other": b}
        kind = rng.choice(["names", "cap", "abstract", "dirabstract"])
        return {"op": "meta", "dir": d, "kind": kind, "name": rng.choice(sorted(present[d])),
                "v": rng.randrange(100), "remove": rng.random() < 0.3}

    while len(ops) < n:
        r = rng.random()
        if r < 0.12 and L > 0:
            # refresh-revealing template: write, mutate, hit inside the lifetime, cross it, list again
            d = rng.choice(listable)
            a = rng.choice([L / 2.0, L - 1, L - 0.5, 1.0])
            a = min(max(a, 0.0), L - 0.25) if L >= 1 else 0.0
            b = L - a + rng.choice([0.0, 0.5, 1.0])
            ops += [{"op": "list", "dir": d, "proto": rng.choice(PROTOS)}, mutation(),
                    {"op": "advance", "dt": a}, {"op": "list", "dir": d, "proto": rng.choice(PROTOS)},
                    {"op": "advance", "dt": b}, {"op": "list", "dir": d, "proto": rng.choice(PROTOS)}]
        elif r < 0.07 + 0.12 and L > 0:
            # a client that connects while the entry is still fresh and sends its request after it expired
            d = rng.choice(listable)
            a = min(L - 0.25, rng.choice([L / 2.0, L - 0.5, 1.0])) if L >= 1 else 0.0
            dly = min(50.0, L - a + rng.choice([0.25, 0.5, 1.0]))
            ops += [{"op": "list", "dir": d, "proto": rng.choice(PROTOS)}, mutation(),
                    {"op": "advance", "dt": max(0.0, a)},
                    {"op": "list", "dir": d, "proto": rng.choice(PROTOS), "delay": dly}]
        elif r < 0.07 + 0.12 + 0.06:
            # a metadata file is edited twice within the same second, to text of the same length (what a
            # parse memo validated by mtime and size cannot see); the listings in between must follow
            d = rng.choice(dirs)
            nm = rng.choice(sorted(present[d])) if present[d] else None
            if nm:
                kind = rng.choice(["names", "cap", "abstract"])
                a, b = rng.sample(range(10, 100), 2)
                a -= a % 7
                b = b - b % 7 + 7 if b % 7 == 0 else b    # keep 'v % 7' one digit for both anyway
                ops += [{"op": "meta", "dir": d, "kind": kind, "name": nm, "v": 10 + a % 80, "remove": False},
                        {"op": "list", "dir": d, "proto": rng.choice(PROTOS)},
                        {"op": "meta", "dir": d, "kind": kind, "name": nm, "v": 10 + b % 80, "remove": False},
                        {"op": "advance", "dt": (L + 0.5) if L > 0 else 0.0},
                        {"op": "list", "dir": d, "proto": rng.choice(PROTOS)}]
        elif r < 0.07 + 0.12 + 0.06 + 0.05 and L > 1:
            # the lifetime is lowered (or switched off) while cache files written under the longer one are around
            d = rng.choice(listable)
            newL = rng.choice([0, 0, 1, max(1, L // 10)])
            ops += [{"op": "list", "dir": d, "proto": rng.choice(PROTOS)}, mutation(),
                    {"op": "advance", "dt": min(L - 0.5, newL + rng.choice([0.5, 2.0, 5.0]))},
                    {"op": "reconf", "L": newL},
                    {"op": "list", "dir": d, "proto": rng.choice(PROTOS)},
                    {"op": "reconf", "L": L}]
        elif r < 0.55:
            o = {"op": "list", "dir": rng.choice(listable), "proto": rng.choice(PROTOS)}
            r2 = rng.random()
            if 0.22 <= r2 < 0.30 and L > 0:
                # before this request an admin changes the cache file's inode, not its contents (chmod -R, chown,
                # a hard link): its change time is now, its modification time is not
                o["inodechange"] = True
            if 0.16 <= r2 < 0.22 and L > 0:
                # somebody removes the cache file while this request is being served (seen at the 2nd or 3rd
                # look the request takes at it)
                o["cachevanish"] = rng.choice([1, 1, 2])
            if r2 < 0.08:
                o["delay"] = rng.choice([0.5, 1.0, 2.5, 30.0])
            elif r2 < 0.16:
                # the directory cannot be scanned for this one request (EIO / ESTALE / no permission)
                o["scanfault"] = rng.choice(["EIO", "EACCES", "ENOENT"])
            ops.append(o)
        elif r < 0.8:
            ops.append(mutation())
        else:
            ops.append({"op": "advance", "dt": _deltas(rng, L)})
    # the cache file's name and the ignore pattern are options too
    cachefile = rng.choice([None, None, None, ".dircache", "cache.db"])
    ignorepatt = rng.choice([None, None, None, "~$|\\.abstract$"])
    return {"spec": spec, "ops": ops, "L": L, "cachefile": cachefile, "ignorepatt": ignorepatt,
            "handlers": rng.choice(["default", "default", "plaindir"]),
            "servertype": rng.choice(["ThreadingTCPServer", "ForkingTCPServer"]),
            "sched_seed": rng.randrange(1 << 30)}


def _apply(op, root, now):
    d = os.path.join(root, op["dir"])
    k = op["op"]
    if k in ("create", "rewrite"):
        p = os.path.join(d, op["name"])
        if k == "rewrite" and not os.path.exists(p):
            return False
        data = (b"<title>T%d</title>" % op["size"] if op["name"].endswith(".html") else b"") + b"x" * op["size"]
        simfs.write_file(p, data, now)
        if k == "create":
            simfs.real_utime(d, (now, now))
        return True
    if k == "delete":
        p = os.path.join(d, op["name"])
        if not os.path.exists(p):
            return False
        os.unlink(p)
        simfs.real_utime(d, (now, now))
        return True
    if k == "rename":
        a, b = os.path.join(d, op["name"]), os.path.join(d, op["to"])
        if not os.path.exists(a) or os.path.exists(b):
            return False
        os.rename(a, b)
        simfs.real_utime(d, (now, now))
        return True
    if k == "swapdirs":
        a, b = os.path.join(root, op["dir"]), os.path.join(root, op["other"])
        tmp = os.path.join(root, ".swap-tmp")
        os.rename(a, tmp)
        os.rename(b, a)
        os.rename(tmp, b)
        simfs.real_utime(root, (now, now))
        return True
    if k == "meta":
        kind = op["kind"]
        if kind == "names":
            p = os.path.join(d, ".names")
            data = ("Path=./%s\nName=Named %d\nNumb=%d\n" % (op["name"], op["v"], op["v"] % 7)).encode()
        elif kind == "cap":
            if not os.path.isdir(os.path.join(d, ".cap")) and not op["remove"]:
                os.makedirs(os.path.join(d, ".cap"))
                simfs.real_utime(d, (now, now))
            p = os.path.join(d, ".cap", op["name"])
            data = ("Name=Capped %d\n" % op["v"]).encode()
        elif kind == "abstract":
            p = os.path.join(d, op["name"] + ".abstract")
            data = ("abstract %d\n" % op["v"]).encode()
        else:
            p = os.path.join(d, ".abstract")
            data = ("dir abstract %d\n" % op["v"]).encode()
        if op["remove"]:
            if not os.path.exists(p):
                return False
            os.unlink(p)
        else:
            simfs.write_file(p, data, now)
        simfs.real_utime(os.path.dirname(p), (now, now))
        return True
    raise ValueError(k)


def _snapshot(root, dst, cachefile=CACHEFILE):
    shutil.copytree(root, dst, symlinks=True, copy_function=shutil.copy2,
                    ignore=lambda d, names: [n for n in names if n.startswith(".cache.pygopherd")
                                             or n == cachefile or n.startswith(cachefile + ".")])


def execute(sc, tape=None):
    harness.load_repo()
    L = sc["L"]
    conf = {("handlers.dir.DirHandler", "cachetime"): str(L)}
    refconf = {("handlers.dir.DirHandler", "cachetime"): "0"}
    cachefile = sc.get("cachefile") or CACHEFILE
    for cf in (conf, refconf):
        if sc.get("cachefile"):
            cf[("handlers.dir.DirHandler", "cachefile")] = sc["cachefile"]
        if sc.get("ignorepatt"):
            cf[("handlers.dir.DirHandler", "ignorepatt")] = sc["ignorepatt"]
    with harness.Scratch("c10") as base:
        root = os.path.join(base, "root")
        world.build(root, sc["spec"])
        states = []   # (t_k, path)

        def snap(t):
            p = os.path.join(base, "state%04d" % len(states))
            _snapshot(root, p, cachefile)
            states.append((t, p))

        tp = Tape(sc["sched_seed"], replay=tape)
        run = harness.SimRun(root, tp, sc["sched_seed"], servertype=sc["servertype"], tls=True,
                             handlers=sc["handlers"], conf=conf)
        listings = []  # (now, dir, proto, response bytes, nstates at that time, opened_r, opened_w)
        counters = {}
        abstract = []
        with run:
            run.fs.watch_open = cachefile
            snap(run.sim.now)
            Lcur = L
            for op in sc["ops"]:
                k = op["op"]
                if k == "advance":
                    run.advance(op["dt"])
                    abstract.append("a")
                elif k == "reconf":
                    # the lifetime option of the live configuration is changed: from now on listings are judged by it
                    Lcur = op["L"]
                    run.config.set("handlers.dir.DirHandler", "cachetime", str(Lcur))
                    counters["lifetime_reconfigured"] = counters.get("lifetime_reconfigured", 0) + 1
                    abstract.append("c")
                elif k == "list":
                    sel = common.selector_of(op["dir"])
                    req, tls = proto.make_request(op["proto"], sel)
                    n0 = len(run.fs.open_sizes)
                    if op.get("inodechange"):
                        cf_ = os.path.join(root, op["dir"], cachefile)
                        if os.path.exists(cf_):
                            run.fs.inode_changed(cf_)
                            counters["cache_inode_changed"] = counters.get("cache_inode_changed", 0) + 1
                    flt = None
                    if op.get("scanfault"):
                        flt = simfs.Fault("listdir", op["dir"], op["scanfault"], nth="all")
                        run.fs.faults.append(flt)
                    vflt = None
                    if op.get("cachevanish") is not None:
                        vflt = simfs.Fault("stat", (op["dir"] + "/" if op["dir"] else "") + cachefile, "vanish",
                                           nth=op["cachevanish"])
                        run.fs.faults.append(vflt)
                    if op.get("delay"):
                        # the first byte (after the TLS hello, if any) arrives at once - it is what the
                        # worker's protocol sniff waits for - and the rest of the request line late
                        k = (len(simnet.fake_client_hello()) if tls else 0) + 1
                        c = run.client(req, tls=tls, segments=[k], delays=[0.0, op["delay"]])
                    else:
                        c = run.client(req, tls=tls)
                    st = run.go()
                    if vflt is not None:
                        run.fs.faults.remove(vflt)
                        if vflt.fired:
                            counters["cache_file_removed_mid_request"] = counters.get("cache_file_removed_mid_request", 0) + 1
                    if flt is not None:
                        run.fs.faults.remove(flt)
                        if flt.fired:
                            counters["scan_failed"] = counters.get("scan_failed", 0) + 1
                    if op.get("delay"):
                        counters["late_request_line"] = counters.get("late_request_line", 0) + 1
                    modes = [m for (_, m, _) in run.fs.open_sizes[n0:]]
                    listings.append((run.sim.now, op["dir"], op["proto"], bytes(c.s2c), len(states),
                                     "r" in modes, "w" in modes, bool(flt is not None and flt.fired), Lcur))
                    # a tiny amount of time passes per request so that histories are totally ordered
                    run.advance(0.001)
                else:
                    if _apply(op, root, run.sim.now):
                        snap(run.sim.now)
                        counters["mutations"] = counters.get("mutations", 0) + 1
                        abstract.append("m")
                    run.advance(0.001)
            run.shutdown()
            counters = common.merge_counters(counters, common.run_counters(run))
        # ------------------------------------------------------------ oracle
        memo = {}

        def ref(k, d, p, now):
            key = (k, d, p)
            if key not in memo:
                req, tls = proto.make_request(p, common.selector_of(d))
                out, _ = harness.one_shot(states[k][1], req, tls=tls, handlers=sc["handlers"],
                                          conf=refconf, seed=sc["sched_seed"], start=now)
                memo[key] = proto.normalize(p, out)
            return memo[key]

        def hybrid(k, j, d, p, now):
            """state k's tree with directory d's own .abstract taken from state j"""
            hp = os.path.join(base, "hybrid")
            shutil.rmtree(hp, ignore_errors=True)
            _snapshot(states[k][1], hp, cachefile)
            dst = os.path.join(hp, d, ".abstract")
            src = os.path.join(states[j][1], d, ".abstract")
            if os.path.exists(dst):
                os.unlink(dst)
            if os.path.exists(src):
                shutil.copy2(src, dst)
            req, tls = proto.make_request(p, common.selector_of(d))
            out, _ = harness.one_shot(hp, req, tls=tls, handlers=sc["handlers"], conf=refconf,
                                      seed=sc["sched_seed"], start=now)
            return proto.normalize(p, out)

        viol = None
        writer_proto = {}
        for (now, d, p, resp, nst, opened_r, opened_w, scan_failed, Lk) in listings:
            got = proto.normalize(p, resp)
            if scan_failed and not proto.is_success(p, got):
                # the directory could not be read: an error reply is a right answer (a stale listing is not)
                counters["scan_failed_answered_with_error"] = counters.get("scan_failed_answered_with_error", 0) + 1
                continue
            cur = nst - 1
            cands = []
            for k in range(nst):
                t_k = states[k][0]
                t_next = states[k + 1][0] if k + 1 < nst else float("inf")
                if k == cur or (Lk > 0 and t_next > now - Lk and t_k <= now):
                    cands.append(k)
            match = []
            for k in sorted(cands, reverse=True):
                if ref(k, d, p, now) == got:
                    match = [k]
                    break
            hit = opened_r and not opened_w
            if hit:
                counters["cache_hit_served"] = counters.get("cache_hit_served", 0) + 1
                if writer_proto.get(d) not in (None, p):
                    counters["cache_hit_cross_protocol"] = counters.get("cache_hit_cross_protocol", 0) + 1
            if opened_w:
                writer_proto[d] = p
            if len(cands) > 1:
                counters["stale_state_was_candidate"] = counters.get("stale_state_was_candidate", 0) + 1
            if Lk > 0 and not opened_r and opened_w and nst > 0:
                counters["expired_entry_not_used"] = counters.get("expired_entry_not_used", 0) + 1
            abstract.append("l%s%d" % ("h" if hit else "m", min(len(cands), 3)))
            if not match and (viol is None or viol["signature"]["class"] == KNOWN_CLASS):
                # classify: does it equal some older (too old) state, or nothing at all?
                older = [k for k in range(nst) if k not in cands and ref(k, d, p, now) == got]
                cls = "too-old-state" if older else ("error" if not proto.is_success(p, got) else "unknown-listing")
                if cls in ("unknown-listing", "too-old-state"):
                    # entries of a candidate state under the directory's CURRENT own abstract?
                    for k in sorted(cands, reverse=True):
                        if k != cur and hybrid(k, cur, d, p, now) == got:
                            cls = "entries-cached-but-own-abstract-fresh"
                            break
                age = None
                if older:
                    age = now - (states[older[-1] + 1][0])
                if viol is not None and cls == KNOWN_CLASS:
                    continue
                viol = {"oracle": "listing-reflects-recent-state",
                        "signature": {"oracle": "listing-reflects-recent-state", "class": cls,
                                      "lifetime0": Lk == 0, "hit": bool(hit)},
                        "detail": "now=%.3f L=%s dir=%r proto=%s candidates=%r older_match=%r stale_by=%r got=%r want=%r"
                                  % (now - sched.EPOCH, Lk, d, p, cands, older, age, common.short(got, 160),
                                     common.short(ref(cur, d, p, now), 160))}
        shape = None
        if counters.get("cache_hit_served") and counters.get("mutations"):
            shape = [L, sc["handlers"], common.digest(abstract)]
        return common.result(viol, shape, counters, common.run_digest(run, [x[3] for x in listings]),
                             tp.rec, run.sim.now - sched.EPOCH, run.sim.steps, run.sim.switches)


def shrink(sc):
    for cand in common.drop_each(sc["ops"]):
        c = dict(sc)
        c["ops"] = cand
        yield c
    dirs_used = set(o.get("dir") for o in sc["ops"])
    keep = [e for e in sc["spec"] if e["p"].split("/")[0] in dirs_used or "" in dirs_used]
    if len(keep) < len(sc["spec"]):
        c = dict(sc)
        c["spec"] = keep
        yield c
    for i, o in enumerate(sc["ops"]):
        if o["op"] == "list" and o["proto"] != "gopher":
            c = dict(sc)
            c["ops"] = sc["ops"][:i] + [dict(o, proto="gopher")] + sc["ops"][i + 1:]
            yield c
    if sc["servertype"] != "ThreadingTCPServer":
        yield dict(sc, servertype="ThreadingTCPServer")
    if sc["handlers"] != "default":
        yield dict(sc, handlers="default")
