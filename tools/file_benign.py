#!/venv/bin/python
"""file_benign.py <worktree> <n> <id>: check that a behaviour-preserving change applies to /repo HEAD and
keeps the test suite at baseline, then store it under /verif/benign/<id>/."""
import json, os, shutil, subprocess, sys, tempfile, time
wt, n, bid = sys.argv[1:4]
src = os.path.join(wt, "BENIGN", n)
tmp = tempfile.mkdtemp(prefix="pgben-", dir="/tmp")
copy = os.path.join(tmp, "repo")
try:
    subprocess.run(["git", "-C", "/repo", "worktree", "add", "-q", "--detach", copy, "HEAD"], check=True)
    pa = subprocess.run(["git", "apply", os.path.join(src, "patch.diff")], cwd=copy, capture_output=True, text=True)
    ok = pa.returncode == 0
    tail = ""
    if ok:
        for attempt in range(2):
            pt = subprocess.run("/venv/bin/python -m pytest -q -p no:cacheprovider --timeout=900 2>&1 | tail -5", cwd=copy,
                                shell=True, capture_output=True, text=True, env=dict(os.environ, PYTHONDONTWRITEBYTECODE="1"))
            tail = pt.stdout
            fails = [l for l in tail.splitlines() if l.startswith("FAILED")]
            ok = all("test_save_cache" in l for l in fails) and " passed" in tail
            if ok:
                break
            time.sleep(15)
    print("%s: applies=%s tests-ok=%s => %s" % (bid, pa.returncode == 0, ok, "KEEP" if ok else "REJECT"))
    if not ok:
        print(pa.stderr[-300:], tail[-500:])
    else:
        dst = os.path.join("/verif/benign", bid)
        os.makedirs(dst, exist_ok=True)
        shutil.copy(os.path.join(src, "patch.diff"), os.path.join(dst, "patch.diff"))
        meta = json.load(open(os.path.join(src, "meta.json")))
        meta["verified_by_me"] = {"baseline": subprocess.run(["git", "-C", "/repo", "log", "--format=%h", "-1"], capture_output=True, text=True).stdout.strip(),
                                  "tests_tail": tail.strip().splitlines()[-1:]}
        json.dump(meta, open(os.path.join(dst, "meta.json"), "w"), indent=1)
finally:
    subprocess.run(["git", "-C", "/repo", "worktree", "remove", "--force", copy])
    shutil.rmtree(tmp, ignore_errors=True)
