#!/venv/bin/python
"""Markdown table of what the last quick run of every check covered (from evidence/*.json)."""
import glob, json, os
V = os.path.dirname(os.path.dirname(os.path.abspath(__file__)))
print("| check | runs | wall s | runs/hour (16 procs) | simulated s | context switches | distinct non-trivial | faults / rare conditions that fired (count) |")
print("|---|---|---|---|---|---|---|---|")
for f in sorted(glob.glob(os.path.join(V, "evidence", "C*.json"))):
    e = json.load(open(f)); c = e["coverage"]
    cf = c.get("counters_fired", {})
    keys = [k for k in cf if any(t in k for t in ("fault", "crash", "enospc", "torn", "stall", "vanish", "timeout", "reset",
                                                   "blocked", "transient", "stalled", "silent", "unfinished", "removed",
                                                   "late_", "scan_failed", "fork", "reaped", "child_w"))]
    keys = sorted(keys, key=lambda k: -cf[k])[:9]
    print("| %s | %d | %.0f | %s | %.0f | %s | %s | %s |" % (
        e["property_id"], c.get("evaluations", 0), e.get("wall_s", 0), "{:,}".format(int(c.get("runs_per_hour", 0))),
        c.get("simulated_seconds", 0), "{:,}".format(c.get("context_switches", 0)),
        "{:,}".format(c.get("distinct_nontrivial", 0)), ", ".join("%s %d" % (k, cf[k]) for k in keys)))
