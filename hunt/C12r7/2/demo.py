#!/venv/bin/python
"""C12 demo 2: with the documented "full featureset" handler list, an
unservable entry (dangling symlink, FIFO) of a top-level directory with a
one-character name is not omitted from the listing but REPLACED by a foreign
entry: url.URLTypeRewriter, the last handler, strips the first path segment
and the listing of /a shows /README and /docs of the document root.

Exit status 0 = property holds, 1 = property violated, 2 = demo itself broken.
"""
import atexit
import os
import shutil
import sys
import tempfile
import time
import traceback
import warnings

ROOT = os.path.dirname(os.path.dirname(os.path.dirname(os.path.abspath(__file__))))
sys.path.insert(0, ROOT)
os.chdir(ROOT)
warnings.simplefilter("ignore")

from pygopherd import initialization, logger, testutil  # noqa: E402

# The handler list that conf/pygopherd.conf documents "for full Pygopherd
# featureset including scripts and PYG".
FULL_HANDLERS = """[url.HTMLURLHandler, gophermap.BuckGophermapHandler,
            mbox.MaildirFolderHandler, mbox.MaildirMessageHandler,
            UMN.UMNDirHandler,
            tal.TALFileHandler,
            html.HTMLFileTitleHandler,
            mbox.MBoxMessageHandler, mbox.MBoxFolderHandler,
            pyg.PYGHandler, scriptexec.ExecHandler,
            file.CompressedFileHandler, file.FileHandler,
            url.URLTypeRewriter]"""

# (request line, needs TLS mock)
REQUESTS = [
    ("gopher0", "/%s\r\n", False),
    ("gopher+", "/%s\t$\r\n", False),
    ("http", "GET /%s HTTP/1.0\r\n\r\n", False),
    ("spartan", "localhost /%s 0\r\n", False),
    ("gemini", "gemini://localhost/%s\r\n", True),
]


def request(config, line, tls):
    """Drive the real protocol/handler code in-process; returns (reply, exc)."""
    for attempt in range(50):
        try:
            proto = testutil.get_testing_protocol(line, config=config, use_tls=tls)
            break
        except OSError as e:  # port 64777 busy: somebody else runs tests too
            if "in use" not in str(e):
                raise
            time.sleep(0.2)
    else:
        raise SystemExit(2)
    try:
        proto.handle()
    except Exception:
        # In the real server GopherRequestHandler.handle() logs this and the
        # client gets whatever was written so far (nothing, or half a header).
        return proto.wfile.getvalue().decode(errors="surrogateescape"), traceback.format_exc(limit=-3)
    return proto.wfile.getvalue().decode(errors="surrogateescape"), None



# how a listing refers to selector S, per protocol
REF = {
    "gopher0": "\t%s\t",
    "gopher+": "\t%s\t",
    "http": 'HREF="%s"',
    "spartan": "=> %s ",
    "gemini": "=> %s ",
}


def main():
    docroot = tempfile.mkdtemp(prefix="c12-rewriter-")
    atexit.register(shutil.rmtree, docroot, True)
    # things that live in the document root
    with open(os.path.join(docroot, "README"), "w") as fp:
        fp.write("the README of the ROOT\n")
    os.mkdir(os.path.join(docroot, "docs"))
    with open(os.path.join(docroot, "docs", "x.txt"), "w") as fp:
        fp.write("x\n")
    # the directory under test and a control
    for d in ("a", "control"):
        os.mkdir(os.path.join(docroot, d))
        for good in ("aaa.txt", "zzz.txt"):
            with open(os.path.join(docroot, d, good), "w") as fp:
                fp.write("hello\n")
    os.symlink("/nonexistent/target", os.path.join(docroot, "a", "README"))  # dangling
    os.mkfifo(os.path.join(docroot, "a", "docs"))  # special file

    config = initialization.init_config("conf/pygopherd.conf")
    config.set("pygopherd", "root", docroot)
    config.set("logger", "logmethod", "none")
    config.set("handlers.HandlerMultiplexer", "handlers", FULL_HANDLERS)
    logger.init(config)
    initialization.init_mimetypes(config)

    violations = []
    for d in ("control", "a"):
        for proto, fmt, tls in REQUESTS:
            reply, exc = request(config, fmt % d, tls)
            problems = []
            if exc:
                problems.append("exception: " + exc.strip().splitlines()[-1])
            for good in ("aaa.txt", "zzz.txt"):
                if REF[proto] % ("/%s/%s" % (d, good)) not in reply:
                    problems.append("entry /%s/%s missing" % (d, good))
            # "at most the unservable entry is omitted": nothing that is not in
            # the directory may show up in its place
            for foreign in ("/README", "/docs"):
                if REF[proto] % foreign in reply:
                    problems.append("listing of /%s contains the FOREIGN entry %s" % (d, foreign))
            if problems:
                if d == "control":
                    print("DEMO BROKEN:", proto, problems, repr(reply))
                    return 2
                violations.append((proto, problems, reply))

    if not violations:
        print("OK: the listing of /a holds aaa.txt and zzz.txt and nothing foreign")
        return 0
    print("C12 VIOLATED: the dangling symlink /a/README and the FIFO /a/docs are not "
          "omitted from the listing of /a but replaced by entries of the document root")
    for proto, problems, reply in violations:
        print("-- /a over %s: %s" % (proto, "; ".join(problems)))
    print("gopher0 reply for /a:")
    print(request(config, "/a\r\n", False)[0])
    return 1


if __name__ == "__main__":
    sys.exit(main())
