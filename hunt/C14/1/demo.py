#!/usr/bin/env python
"""
C14 / finding 1: concurrent requests into the same ZIP archive make each
other fail (empty response instead of the document).

Eight clients ask, at the same moment, for the same member of the same ZIP
archive (handlers.ZIP.ZIPHandler enabled).  Alone, each of them gets
"content 7\n".  Served together, some of them get NOTHING: the connection is
closed without a single byte, because every request rewrites the shared index
cache ".cache.pygopherd.zip3.archive.zip" non-atomically, and a worker that
opens it while another one is writing dies in dbm.dumb with a SyntaxError /
ValueError / AttributeError that VFSZip.save_cache() does not expect.

The real ThreadingTCPServer is started in-process on an ephemeral port and is
driven over real sockets; nothing in pygopherd or in the standard library is
patched.  (The forking server, run in a process of its own, fails the same
way; the race is between workers, whatever their kind.)

Exit status: 0 if every concurrently served client received exactly the
response it receives alone, 1 otherwise.
"""
import contextlib
import io
import os
import shutil
import socket
import sys
import tempfile
import threading
import time
import warnings
import zipfile

ROOT = os.path.dirname(os.path.dirname(os.path.dirname(os.path.abspath(__file__))))
sys.path.insert(0, ROOT)
os.chdir(ROOT)
warnings.simplefilter("ignore")

from pygopherd import initialization, logger  # noqa: E402

CLIENTS = 8
MAX_ROUNDS = 3000
MAX_SECONDS = 150

tmp = tempfile.mkdtemp(prefix="c14-zip-")
docroot = os.path.join(tmp, "root")
os.mkdir(docroot)
with zipfile.ZipFile(os.path.join(docroot, "archive.zip"), "w") as z:
    for i in range(60):
        z.writestr("docs/file%03d.txt" % i, "content %d\n" % i)

config = initialization.init_config("conf/pygopherd.conf")
config.set("pygopherd", "root", docroot)
config.set("pygopherd", "servertype", "ThreadingTCPServer")
config.set("pygopherd", "interface", "127.0.0.1")
config.set("pygopherd", "port", "0")
config.set("logger", "logmethod", "none")
config.set("handlers.ZIP.ZIPHandler", "enabled", "true")
config.set(
    "handlers.HandlerMultiplexer",
    "handlers",
    "[ZIP.ZIPHandler, UMN.UMNDirHandler, file.FileHandler]",
)
logger.init(config)
initialization.init_exceptions(config)
initialization.init_mimetypes(config)
server = initialization.get_server(config)
address = server.server_address
threading.Thread(target=server.serve_forever, daemon=True).start()


def fetch(request: bytes) -> bytes:
    with socket.create_connection(address, timeout=60) as s:
        s.sendall(request)
        out = b""
        while True:
            data = s.recv(65536)
            if not data:
                return out
            out += data


REQUEST = b"/archive.zip/docs/file007.txt\r\n"
alone = fetch(REQUEST)
print("served alone      : %r" % alone)
assert alone == b"content 7\n", alone

server_stderr = io.StringIO()
failure = None
started = time.time()
rounds = 0
with contextlib.redirect_stderr(server_stderr):
    while rounds < MAX_ROUNDS and time.time() - started < MAX_SECONDS:
        rounds += 1
        results = [None] * CLIENTS

        def client(i):
            try:
                results[i] = fetch(REQUEST)
            except Exception as exc:  # connection reset, ...
                results[i] = b"<client error %r>" % repr(exc).encode()

        threads = [threading.Thread(target=client, args=(i,)) for i in range(CLIENTS)]
        for t in threads:
            t.start()
        for t in threads:
            t.join()
        wrong = [r for r in results if r != alone]
        if wrong:
            failure = (rounds, results)
            break

server.shutdown()
server.server_close()
shutil.rmtree(tmp, ignore_errors=True)

if failure is None:
    print(
        "OK: %d rounds of %d simultaneous clients, every response identical "
        "to the response served alone" % (rounds, CLIENTS)
    )
    sys.exit(0)

rnd, results = failure
print("round %d, %d simultaneous clients, same request %r:" % (rnd, CLIENTS, REQUEST))
for i, r in enumerate(results):
    print("  client %d received %r%s" % (i, r, "" if r == alone else "   <-- WRONG"))
errors = [
    line
    for line in server_stderr.getvalue().splitlines()
    if line and not line.startswith(" ") and "Error" in line
]
print("exceptions raised in the server's workers meanwhile:")
for line in sorted(set(errors)):
    print("  " + line[:200])
print(
    "FAIL (C14): a client served concurrently did not receive the response "
    "it receives alone against the same content"
)
sys.exit(1)
