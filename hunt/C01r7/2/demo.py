#!/usr/bin/env python
"""C01 hunt, finding 2 (weaker than finding 1: a metadata lookup, no content).

HandlerMultiplexer.getHandler() calls vfs.stat(selector) BEFORE any handler
has applied the selector filter, and Virtual.__init__() does the same for the
part of the selector in front of "?" / "|".  A climbing request therefore
makes the server walk to, and stat, the outside path; only afterwards is the
request refused.  The answer does not contain the result, but the outside
object has been consulted: the answer arrives only if that lookup returns
(think of an automounter directory or a dead network mount next to the root),
and the lookup is an access to something outside the root that the property
says no request can cause.

This program serves a small root, sends climbing requests in every protocol,
and records every path that reaches os.stat / os.lstat while a request is
being handled.  It exits 0 when none of them lies outside the root.
"""
import io
import os
import shutil
import sys
import tempfile
import time
import warnings

WT = os.path.dirname(os.path.dirname(os.path.dirname(os.path.abspath(__file__))))
sys.path.insert(0, WT)
os.chdir(WT)
warnings.simplefilter("ignore")

import pygopherd.handlers.base as hbase  # noqa: E402
from pygopherd import initialization, logger, testutil  # noqa: E402
from pygopherd.handlers import HandlerMultiplexer  # noqa: E402

FULL = """[url.HTMLURLHandler, gophermap.BuckGophermapHandler,
 mbox.MaildirFolderHandler, mbox.MaildirMessageHandler, ZIP.ZIPHandler,
 UMN.UMNDirHandler, tal.TALFileHandler, html.HTMLFileTitleHandler,
 mbox.MBoxMessageHandler, mbox.MBoxFolderHandler,
 pyg.PYGHandler, scriptexec.ExecHandler,
 file.CompressedFileHandler, file.FileHandler, url.URLTypeRewriter]"""


def main():
    base = tempfile.mkdtemp(prefix="c01-2-")
    try:
        root = os.path.join(base, "parent", "root")
        os.makedirs(os.path.join(root, "sub"))
        with open(os.path.join(root, "a.txt"), "w") as fp:
            fp.write("hello\n")
        with open(os.path.join(base, "parent", "secret.txt"), "w") as fp:
            fp.write("outside\n")
        os.makedirs(os.path.join(base, "parent", "automount", "host"))

        problems = []
        for label, full in (("shipped handler list", False), ("full handler list", True)):
            config = initialization.init_config(os.path.join(WT, "conf", "pygopherd.conf"))
            config.set("pygopherd", "root", root)
            config.set("logger", "logmethod", "none")
            if full:
                config.set("handlers.HandlerMultiplexer", "handlers", FULL)
                config.set("handlers.ZIP.ZIPHandler", "enabled", "true")
            logger.init(config)
            initialization.init_mimetypes(config)
            HandlerMultiplexer.handlers = None
            hbase.rootpath = None
            server = None
            for _ in range(100):
                try:
                    server = testutil.get_testing_server(config)
                    break
                except OSError:
                    time.sleep(0.3)

            requests = [
                (False, b"/../secret.txt\r\n"),
                (False, b"/sub/../../automount/host\r\n"),
                (False, b"/../secret.txt\t+\r\n"),
                (True, b"/../secret.txt\t!\r\n"),
                (False, b"/../secret.txt|/MBOX-MESSAGE/1\r\n"),
                (False, b"/../automount/host?x\r\n"),
                (False, b"GET /%2e%2e/secret.txt HTTP/1.0\r\n\r\n"),
                (True, b"GET /%2e%2e/secret.txt HTTP/1.0\r\n\r\n"),
                (False, b"GET /wap/%2e%2e/secret.txt HTTP/1.0\r\n\r\n"),
                (True, b"gemini://host/%2e%2e/secret.txt\r\n"),
                (False, b"host /..%2Fsecret.txt 0\r\n"),
            ]

            rootreal = os.path.realpath(root)
            seen = []
            real_stat = os.stat

            def outside(path):
                if isinstance(path, int):
                    return False
                p = os.fsdecode(path)
                p = os.path.realpath(os.path.join(os.getcwd(), p))
                return not (p == rootreal or p.startswith(rootreal + os.sep))

            current = [None]

            def spy_stat(path, *a, **k):
                if outside(path):
                    seen.append((current[0], "stat", os.fsdecode(path)))
                return real_stat(path, *a, **k)

            for tls, line in requests:
                rfile, wfile = io.BytesIO(line), io.BytesIO()
                got = {}

                class Handler(testutil.MockRequestHandler):
                    def finish(self):
                        got["data"] = wfile.getvalue()

                req = (testutil.MockSSLRequest if tls else testutil.MockRequest)(rfile, wfile)
                handler = Handler(req, ("10.77.77.77", "7777"), server)
                current[0] = line
                os.stat = spy_stat
                try:
                    handler.handle()
                finally:
                    os.stat = real_stat
                data = got.get("data", b"")
                if b"outside" in data:
                    problems.append("[%s] %r: content of the outside file sent" % (label, line))
            for line, what, path in seen:
                problems.append(
                    "[%s] request %r made the server %s %s"
                    % (label, line, what, os.path.normpath(path))
                )

        if problems:
            print("C01 VIOLATED: objects outside the root are looked up for climbing requests")
            shown = set()
            for p in problems:
                if p not in shown:
                    shown.add(p)
                    print(" -", p)
            return 1
        print("ok: no path outside the root reached the file system")
        return 0
    finally:
        shutil.rmtree(base, ignore_errors=True)


if __name__ == "__main__":
    sys.exit(main())
