#!/bin/sh
# Offline setup: nothing to build.  Creates output directories and runs a
# short import-and-determinism smoke test of the simulator against /repo.
set -e
cd "$(dirname "$0")"
mkdir -p evidence replays
exec ./check selftest-smoke
