#!/usr/bin/env python
"""
C14 / finding 3: a client that merely *lists* a directory changes the
modification date that every other client is told for that directory.

Content tree: /docs/ (last modified on 2001-01-01) with two files.

Client B asks for the Gopher+ information of /docs ("/docs<TAB>!") and for
"HEAD /docs HTTP/1.0".  Alone, B is told "Mod-Date: ... 2001" and
"Last-Modified: Mon, 01 Jan 2001 ...".  If client A's plain menu request for
/docs is served first, the server creates docs/.cache.pygopherd.dir, which
bumps the directory's mtime, and B is told today's date instead - although
nobody changed the content.  (The wrong date is then also pickled into the
parent directory's cache, and served from there for `cachetime` seconds.)

Default configuration, real ThreadingTCPServer, real sockets, nothing
patched.  "A before B" is one interleaving of two simultaneous clients.

Exit status: 0 if B receives what it receives alone.
"""
import os
import shutil
import socket
import sys
import tempfile
import threading
import warnings

ROOT = os.path.dirname(os.path.dirname(os.path.dirname(os.path.abspath(__file__))))
sys.path.insert(0, ROOT)
os.chdir(ROOT)
warnings.simplefilter("ignore")
os.environ["TZ"] = "UTC"

from pygopherd import initialization, logger  # noqa: E402

JAN_2001 = 978307200  # 2001-01-01 00:00:00 UTC


def build(docroot):
    """(Re)create the pristine content tree at `docroot`."""
    shutil.rmtree(docroot, ignore_errors=True)
    os.makedirs(os.path.join(docroot, "docs"))
    for name in ("one.txt", "two.txt"):
        path = os.path.join(docroot, "docs", name)
        with open(path, "w") as fp:
            fp.write(name + "\n")
        os.utime(path, (JAN_2001, JAN_2001))
    os.utime(os.path.join(docroot, "docs"), (JAN_2001, JAN_2001))
    os.utime(docroot, (JAN_2001, JAN_2001))
    return docroot


def serve(docroot):
    config = initialization.init_config("conf/pygopherd.conf")
    config.set("pygopherd", "root", docroot)
    config.set("pygopherd", "servertype", "ThreadingTCPServer")
    config.set("pygopherd", "interface", "127.0.0.1")
    config.set("pygopherd", "port", "0")
    config.set("pygopherd", "servername", "gopher.example")
    config.set("pygopherd", "advertisedport", "70")
    config.set("logger", "logmethod", "none")
    logger.init(config)
    initialization.init_exceptions(config)
    initialization.init_mimetypes(config)
    server = initialization.get_server(config)
    threading.Thread(target=server.serve_forever, daemon=True).start()
    return server


def fetch(address, request: bytes) -> bytes:
    with socket.create_connection(address, timeout=60) as s:
        s.sendall(request)
        out = b""
        while True:
            data = s.recv(65536)
            if not data:
                return out
            out += data


A = b"/docs\r\n"
B_REQUESTS = [b"/docs\t!\r\n", b"HEAD /docs HTTP/1.0\r\n\r\n", b"\t$\r\n"]

tmp = tempfile.mkdtemp(prefix="c14-mtime-")
docroot = os.path.join(tmp, "root")
server = serve(build(docroot))
address = server.server_address

# --- B alone, against the pristine content --------------------------------
alone = {}
for request in B_REQUESTS:
    build(docroot)
    alone[request] = fetch(address, request)

# --- A, then B, against the same pristine content -------------------------
together = {}
for request in B_REQUESTS:
    build(docroot)
    fetch(address, A)
    together[request] = fetch(address, request)

server.shutdown()
server.server_close()
shutil.rmtree(tmp, ignore_errors=True)

failed = False
for request in B_REQUESTS:
    if alone[request] == together[request]:
        continue
    failed = True
    print("client B's request %r" % request)
    a_lines = alone[request].decode().splitlines()
    t_lines = together[request].decode().splitlines()
    for x, y in zip(a_lines, t_lines):
        if x != y:
            print("   served alone                : %s" % x.strip())
            print("   served after A listed /docs : %s" % y.strip())

if not failed:
    print("OK: B received the same responses with and without client A")
    sys.exit(0)
print(
    "FAIL (C14): the response to B depends on whether another client's "
    "menu request was served before"
)
sys.exit(1)
