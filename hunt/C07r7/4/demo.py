"""C07 (default handler list): a file whose selector has the shape
"<anything>?/MBOX-MESSAGE/<digits>" (or "|", or MAILDIR-MESSAGE) is taken for
a mail message by mbox.MBoxMessageHandler / MaildirMessageHandler although it
is a plain file that exists: it is left out of the listing of its directory
and cannot be fetched; when "<anything>" happens to be a mailbox, the mail
message is listed/served in its place."""
import os
import sys
import tempfile

# ---- helpers: drive the real pygopherd code in-process ----
import os
import sys
import warnings

warnings.simplefilter("ignore")
ROOT = os.path.dirname(os.path.dirname(os.path.dirname(os.path.abspath(__file__))))
sys.path.insert(0, ROOT)
os.chdir(ROOT)

from pygopherd import gopherentry, initialization, logger, testutil  # noqa: E402
from pygopherd.handlers import HandlerMultiplexer  # noqa: E402
import pygopherd.handlers.base as hbase  # noqa: E402
import pygopherd.handlers.UMN as UMN  # noqa: E402

# The handler list that conf/pygopherd.conf documents as
# "full Pygopherd featureset including scripts and PYG".
FULL = """[url.HTMLURLHandler, gophermap.BuckGophermapHandler,
    mbox.MaildirFolderHandler, mbox.MaildirMessageHandler,
    %s,
    tal.TALFileHandler, html.HTMLFileTitleHandler,
    mbox.MBoxMessageHandler, mbox.MBoxFolderHandler,
    pyg.PYGHandler, scriptexec.ExecHandler,
    file.CompressedFileHandler, file.FileHandler,
    url.URLTypeRewriter]"""
# The default handler list of conf/pygopherd.conf
DEFAULT = """[url.HTMLURLHandler, gophermap.BuckGophermapHandler,
    mbox.MaildirFolderHandler, mbox.MaildirMessageHandler,
    %s, html.HTMLFileTitleHandler,
    mbox.MBoxMessageHandler, mbox.MBoxFolderHandler,
    file.FileHandler]"""
DIRHANDLERS = ["UMN.UMNDirHandler", "dir.DirHandler"]


def make_config(root, handlers=None):
    config = testutil.get_config()  # conf/pygopherd.conf
    config.set("pygopherd", "root", root)
    if handlers:
        config.set("handlers.HandlerMultiplexer", "handlers", handlers)
    config.set("logger", "logmethod", "none")
    logger.init(config)
    initialization.init_mimetypes(config)
    # forget what an earlier configuration left in module globals
    HandlerMultiplexer.handlers = None
    HandlerMultiplexer.rootpath = None
    hbase.rootpath = None
    UMN.extstrip = None
    gopherentry.mapping = None
    gopherentry.eaexts = None
    return config


def request(config, line):
    """Send one request line through the real protocol/handler code."""
    proto = testutil.get_testing_protocol(line, config=config)
    proto.handle()
    return proto.wfile.getvalue()


def listing(config, selector):
    """Selectors of the (non-info) items of the gopher menu of selector, or
    the exception that the request died with."""
    try:
        raw = request(config, selector + "\r\n").decode(errors="surrogateescape")
    except Exception as e:  # the server would drop the connection
        return e
    out = []
    for line in raw.split("\r\n"):
        if not line or line[0] == "i":
            continue
        fields = line.split("\t")
        if line[0] == "3" and len(fields) > 2 and fields[2] == "error.host":
            return RuntimeError("error reply: " + line)
        out.append(fields[1])
    return out
# ---- end of helpers ----

MBOX = b"""From alice@example.com Sat Jan  3 01:05:34 1998
From: alice@example.com
Subject: a mail message

body
"""
bad = 0
for dirhandler in DIRHANDLERS:
    for with_mailbox in (False, True):
        root = tempfile.mkdtemp()
        d = os.path.join(root, "archive?", "MBOX-MESSAGE")
        os.makedirs(d)
        files = {"1": b"file one\n", "2": b"file two\n", "notes": b"notes\n"}
        for name, data in files.items():
            with open(os.path.join(d, name), "wb") as fp:
                fp.write(data)
        if with_mailbox:
            with open(os.path.join(root, "archive"), "wb") as fp:
                fp.write(MBOX)
        config = make_config(root, DEFAULT % dirhandler)

        sel = "/archive?/MBOX-MESSAGE"
        expected = sorted(sel + "/" + n for n in files)
        got = listing(config, sel)
        print("%s, /archive %s: listing of %s = %r"
              % (dirhandler, "is an mbox" if with_mailbox else "does not exist", sel, got))
        if isinstance(got, Exception) or sorted(got) != expected:
            print("  VIOLATION: expected exactly once each: %r" % expected)
            bad += 1
        for name, data in files.items():
            body = request(config, sel + "/" + name + "\r\n")
            if body != data:
                print("  VIOLATION: fetching %r returned %r, not the file's content %r"
                      % (sel + "/" + name, body[:70], data))
                bad += 1
sys.exit(1 if bad else 0)
