"""C02 - protocol autodetection is deterministic, ordered and strict about TLS.

Every connection runs on a live simulated socket: the seed chooses the first
byte (all 256 values are swept in both tiers, with and without a TLS context),
whether the rest of the line follows at once, later, or in pieces, how the
HTTP header block (WAP auto-detection reads it) is segmented, its header
order and case, and a history of earlier connections on the same server.

Observed from outside: whether the TLS context wrapped the socket, the request
line the handler read after the sniff, and the class of the protocol object
returned by ProtocolMultiplexer.getProtocol.

Oracles: (1) TLS iff first byte 0x16 (given a context; never without), and the
handler's first line is exactly the line the client sent; (2) the same
(line, TLS-ness, header block) yields the same class under every
segmentation, delay pattern and prior history; (3) the class's `secure` flag
equals the connection's TLS-ness; (4) with the shipped list some protocol is
returned and nothing raises, for arbitrary byte lines; (5) for canonical
shapes and clear near-misses the class is the first protocol of the configured
order whose documented shape matches, for seeded permutations and sub-lists.
"""
import os
import random
import re

from simkit import harness, proto, sched, world, fs as simfs, net as simnet
from simkit.tape import Tape
from . import common

PROPERTY = "C02"
LEVEL = "exploration"
RUNS = {"quick": 2500, "thorough": 60000}
BATCH = 10
RULE = ("seeded server configurations (shipped protocol list, permutations, sub-lists; TLS context or not) each "
        "serving a history of 8-24 connections: canonical request shapes and near-misses of every protocol, "
        "random byte lines, header-block variants, each repeated under different segmentation/delay plans; plus a "
        "sweep of all 256 first-byte values x {context, no context} x {one segment, first byte alone}; "
        "non-trivial = the request line arrived in more than one segment or after a delay, or the list was "
        "permuted; distinct = distinct (line shape label, TLS, header variant, list variant, class) tuples")
REAL = common.REAL
STUB = common.STUB
ASSUMPTIONS = [
    "the shape model used for the order oracle is written from the protocol docstrings and conf comments and is "
    "only applied to canonical shapes and clear near-misses (no verdict on double spaces, tabs inside HTTP lines)",
    "TLS is a stub: a ClientHello is a fake record starting with 0x16",
]
PROBES_REQUIRED = ["reconfigured_live", "first_byte_alone", "header_block_segmented", "list_permuted", "tls_wrapped",
                   "byte_0x16_without_context", "wap_autodetected"]

SHIPPED = ["wap.WAPProtocol", "gemini.GeminiProtocol", "http.HTTPProtocol", "http.HTTPSProtocol",
           "spartan.SpartanProtocol", "gopherp.GopherPlusProtocol", "gopherp.SecureGopherPlusProtocol",
           "rfc1436.GopherProtocol", "rfc1436.SecureGopherProtocol"]
SECURE = {"WAPProtocol": False, "GeminiProtocol": True, "HTTPProtocol": False, "HTTPSProtocol": True,
          "SpartanProtocol": False, "GopherPlusProtocol": False, "SecureGopherPlusProtocol": True,
          "GopherProtocol": False, "SecureGopherProtocol": True}


# ------------------------------------------------------------ shape model
def shape_matches(cls, line, tls, headers):
    """Documented request shape of each protocol (line without its line ending)."""
    if SECURE[cls] != tls:
        return False
    toks = line.split(" ")
    http = (len(toks) == 3 and toks[0] in ("GET", "HEAD") and toks[2].startswith("HTTP/"))
    if cls in ("HTTPProtocol", "HTTPSProtocol"):
        return http
    if cls == "WAPProtocol":
        if not http:
            return False
        if toks[1].startswith("/wap"):
            return True
        # the value as the header parser keeps it: everything after the first ':' of the stripped line
        h = {kv[0].lower(): ((kv[2] if len(kv) > 2 else ": ")[1:] + kv[1]).rstrip() for kv in headers}
        acc = h.get("accept")
        if acc is None or not re.search("[, ]text/vnd.wap.wml", acc):
            return False
        return "x-wap-profile" in h or "x-up-devcap-max-pdu" in h
    if cls == "GeminiProtocol":
        return line.startswith("gemini://")
    if cls == "SpartanProtocol":
        try:
            line.encode("ascii")
        except UnicodeEncodeError:
            return False
        return len(toks) == 3 and all(toks) and toks[2].isdigit()
    if cls in ("GopherPlusProtocol", "SecureGopherPlusProtocol"):
        f = line.split("\t")
        if len(f) not in (2, 3):
            return False
        last = f[-1]
        return last == "!" or last[:1] in ("+", "$")
    if cls in ("GopherProtocol", "SecureGopherProtocol"):
        return True
    raise ValueError(cls)


CANON = [
    # (label, line)
    ("http-get", "GET /docs HTTP/1.0"), ("http-head", "HEAD / HTTP/1.1"), ("http-wap-path", "GET /wap/docs HTTP/1.0"),
    ("http-two-tokens", "GET /docs"), ("http-post", "POST /docs HTTP/1.0"), ("http-four-tokens", "GET /docs HTTP/1.0 x"),
    ("http-ftp", "GET /docs FTP/1.0"), ("http-lower", "get /docs HTTP/1.0"),
    ("spartan", "sim.example.org /docs 0"), ("spartan-body", "h / 12"), ("spartan-nondigit", "h /docs abc"),
    ("spartan-two", "h /docs"), ("spartan-four", "h /docs 0 1"), ("spartan-get-digits", "GET /docs 10"),
    ("spartan-nonascii", "hôst /docs 0"), ("spartan-negative", "h /docs -1"),
    ("gopherp-plus", "/docs\t+"), ("gopherp-bang", "/docs\t!"), ("gopherp-dollar", "/docs\t$"),
    ("gopherp-search-plus", "/docs\tquery\t+"), ("gopherp-view", "/small.txt\t+text/plain"),
    ("gopher-search", "/docs\tquery"), ("gopher-search-words-num", "/docs\tfind me 3"),
    ("gopher-search-num", "/veronica query\t2024"), ("gopherp-dollar-space-num", "/\t$ 1"),
    ("gopher-tab-two-words-num", "/\tpygopherd 0"), ("spartan-double-space", "localhost  / 0"),
    ("spartan-tab-separated", "h\t/docs\t0"), ("gopher-empty-field", "/docs\t"), ("gopher-four-fields", "/docs\ta\tb\tc"),
    ("gopher-3-fields-plain", "/docs\t+x\tmore"), ("gopher-bang-x", "/docs\t!x"),
    ("gopher-plain", "/docs"), ("gopher-empty", ""), ("gopher-slash", "/"),
    ("gemini", "gemini://sim.example.org/docs"), ("gemini-root", "gemini://h/"), ("gemini-upper", "GEMINI://h/docs"),
    ("gemini-http-scheme", "https://h/docs"), ("gemini-query", "gemini://h/docs?q"),
    # first lines longer than any buffer size one might think of (64 KiB, 8 KiB)
    ("http-long", "GET /" + "a" * 70000 + " HTTP/1.0"), ("gopherp-long", "/" + "b" * 70000 + "\t+"),
    ("spartan-long", "h /" + "c" * 66000 + " 0"), ("gemini-long", "gemini://h/" + "d" * 70000),
    ("http-8k", "GET /" + "a" * 8200 + " HTTP/1.0"), ("gopherp-8k", "/" + "b" * 8200 + "\t$"),
    # empty first / last TAB-separated fields next to a Gopher+ marker
    ("gopher-plus-then-empty", "/docs\t+\t"), ("gopher-bang-then-empty", "/docs\t!\t"),
    ("gopher-search-plus-then-empty", "/docs\tquery\t+\t"), ("gopher-dollar-then-empty", "/docs\t$\t"),
    ("gopherp-leading-tab", "\t+"), ("gopherp-two-leading-tabs", "\t\t+"), ("gopher-trailing-space-plus", "/docs\t+ "),
    ("gopherp-leading-space", " /docs\t+"),
    # first words that are not methods but look a little like them; an empty first word
    ("http-empty-method", " /docs HTTP/1.0"), ("http-method-E", "E / HTTP/1.0"), ("http-method-THE", "THE / HTTP/1.1"),
    ("http-method-GETHEAD", "GETHEAD / HTTP/1.1"), ("http-method-ET", "ET /docs HTTP/1.0"), ("http-method-GE", "GE / HTTP/1.0"),
    ("http-empty-method-plus", " /x HTTP/1.0\t+"),
    # Spartan-shaped lines with bytes that are neither ASCII nor UTF-8
    ("spartan-latin1-path", "localhost /caf\udce9.txt 0"), ("spartan-ff-host", "h\udcffst /docs 0"),
    ("spartan-latin1-plus", "localhost /caf\udce9\t+ 0"), ("spartan-c0-80", "h /\udcc0\udc80 0"),
]
HEADER_VARIANTS = {
    "none": [],
    "host": [("Host", "sim.example.org")],
    "wap-full": [("Accept", "text/html, text/vnd.wap.wml"), ("X-Wap-Profile", "\"http://w/p.xml\"")],
    "wap-upper": [("ACCEPT", "image/gif,text/vnd.wap.wml"), ("X-UP-DEVCAP-MAX-PDU", "1024")],
    "wap-empty-profile": [("Accept", "text/html, text/vnd.wap.wml"), ("X-Wap-Profile", "")],
    "wap-accept-only": [("Accept", "text/html, text/vnd.wap.wml")],
    "wap-profile-only": [("Accept", "text/html"), ("x-wap-profile", "p")],
    "wap-reordered": [("x-wap-profile", "p"), ("User-Agent", "x"), ("Accept", "a/b text/vnd.wap.wml")],
    "wap-lookalike": [("Accept", "text/vnd.wap.wmlscript,text/html"), ("X-Wap-Profile-Diff", "d")],
    "wap-wml-first": [("Accept", "text/vnd.wap.wml, text/html"), ("X-Wap-Profile", "p")],
    "wap-wml-only": [("Accept", "text/vnd.wap.wml"), ("x-up-devcap-max-pdu", "9")],
    "wap-wml-first-nospace": [("Accept", "text/vnd.wap.wml,text/html", ":"), ("X-Wap-Profile", "p")],
    "wap-two-spaces": [("Accept", "text/html,  text/vnd.wap.wml", ":  "), ("X-Wap-Profile", "p", ":")],
}


def _plan(rng, nbytes):
    k = rng.choice([0, 0, 1, 1, 2, 3])
    segs = sorted(rng.sample(range(1, max(2, nbytes)), min(k, max(0, nbytes - 1))))
    if rng.random() < 0.25 and nbytes > 1:
        segs = sorted(set(segs + [1]))
    delays = [rng.choice([0.0, 0.0, 0.001, 0.5, 5.0]) for _ in range(len(segs) + 1)]
    return segs, delays


def _conn(rng, label, line, tls, hv):
    eol = rng.choice(["\r\n", "\r\n", "\n"])
    data = line + eol
    hdr = ""
    if hv != "none" or line.startswith(("GET ", "HEAD ")):
        hdr = "".join("%s%s%s\r\n" % (kv[0], kv[2] if len(kv) > 2 else ": ", kv[1])
                      for kv in HEADER_VARIANTS[hv]) + "\r\n"
    raw = (data + hdr).encode("utf-8", "surrogateescape").decode("latin-1")
    segs, delays = _plan(rng, len(raw) + (13 if tls else 0))
    nline = len(data.encode("utf-8", "surrogateescape")) + (13 if tls else 0)
    if rng.random() < 0.06 and nline > 3:
        # the client pauses for longer than the server's timeout in the middle of its first line
        cut = rng.randrange(2, nline)
        segs = [cut]
        delays = [0.0, rng.choice([61.0, 75.0, 200.0])]
    elif rng.random() < 0.04:
        # the client connects and stays silent for longer than the timeout before its first byte
        segs = []
        delays = [rng.choice([61.0, 90.0, 110.0])]
    return {"label": label, "line": line, "eol": eol, "tls": tls, "hv": hv, "raw": raw,
            "segments": segs, "delays": delays, "half_close": rng.random() < 0.8}


def gen(seed, index, tier):
    rng = random.Random(seed)
    variant = rng.choice(["shipped", "shipped", "permuted", "sublist"])
    plist = list(SHIPPED)
    if variant == "permuted":
        rng.shuffle(plist)
    elif variant == "sublist":
        k = rng.randrange(3, len(SHIPPED))
        keep = set(rng.sample(SHIPPED, k))
        plist = [p for p in SHIPPED if p in keep]
        if rng.random() < 0.5:
            rng.shuffle(plist)
    ctx = rng.random() < 0.8
    conns = []
    n = rng.randrange(8, 25)
    base = []
    for _ in range(max(3, n // 3)):
        r = rng.random()
        if r < 0.75:
            label, line = rng.choice(CANON)
        else:
            nb = rng.randrange(0, 40)
            bs = bytes(rng.choice([9, 32, 32, 43, 36, 33, 47, 71, 69, 84, 72, 80, 48, 49, 104, 58, 0xe9, 0x80, 0xff,
                                   rng.randrange(256)]) for _ in range(nb)).replace(b"\n", b"")
            label, line = "random-bytes", bs.decode("utf-8", "surrogateescape")
        tls = ctx and rng.random() < 0.4
        hv = rng.choice(sorted(HEADER_VARIANTS)) if line.startswith(("GET ", "HEAD ")) else "none"
        base.append((label, line, tls, hv))
    for _ in range(n):
        label, line, tls, hv = rng.choice(base)
        conns.append(_conn(rng, label, line, tls, hv))
    sc = {"protocols": plist, "variant": variant, "context": ctx, "conns": conns,
          "servertype": rng.choice(["ThreadingTCPServer", "ForkingTCPServer"]),
          "sched_seed": rng.randrange(1 << 30)}
    if rng.random() < 0.3:
        # the protocols option of the live configuration object is replaced between two connections (an embedding
        # program, an admin hook): every later connection is judged by the list configured when it arrives
        at = rng.randrange(1, n)
        if rng.random() < 0.6:
            nl = list(SHIPPED)
            rng.shuffle(nl)
            nv = "permuted"
        else:
            keep = set(rng.sample(SHIPPED, rng.randrange(3, len(SHIPPED))))
            nl = [p for p in SHIPPED if p in keep]
            nv = "sublist"
        sc["reconf"] = {str(at): {"protocols": nl, "variant": nv}}
    return sc


def SWEEP(tier):
    """All 256 first-byte values, with and without a TLS context, as one segment and
    with the first byte alone (the rest 5 simulated seconds later)."""
    out = []
    for ctx in (True, False):
        for alone in (False, True):
            for lo in range(0, 256, 32):
                conns = []
                for b in range(lo, lo + 32):
                    if b == 0x16 and ctx:
                        line = "/docs"
                        c = {"label": "sweep-tls", "line": line, "eol": "\r\n", "tls": True, "hv": "none",
                             "raw": line + "\r\n", "segments": [1] if alone else [],
                             "delays": [0.0, 5.0] if alone else [0.0], "half_close": True}
                    else:
                        line = bytes([b]).decode("latin-1") + "docs"
                        if b == 0x0a:
                            line = ""
                        raw = bytes([b]).decode("latin-1") + "docs\r\n"
                        c = {"label": "sweep-byte", "line": None, "eol": "", "tls": False, "hv": "none",
                             "raw": raw, "segments": [1] if alone else [], "first_byte": b,
                             "delays": [0.0, 5.0] if alone else [0.0], "half_close": True}
                    conns.append(c)
                out.append({"protocols": list(SHIPPED), "variant": "shipped", "context": ctx, "conns": conns,
                            "servertype": "ThreadingTCPServer", "sched_seed": 3, "sweep": True})
    return out


def execute(sc, tape=None):
    harness.load_repo()
    with harness.Scratch("c02") as base:
        root = os.path.join(base, "root")
        world.build(root, [{"p": "docs", "k": "dir"}, {"p": "docs/a.txt", "k": "file", "d": "a\n"},
                           {"p": "small.txt", "k": "file", "d": "tiny\n"}])
        tp = Tape(sc["sched_seed"], replay=tape)
        conf = {}
        if sc["variant"] != "shipped":
            conf = {("protocols.ProtocolMultiplexer", "protocols"): "[" + ", ".join(sc["protocols"]) + "]"}
        run = harness.SimRun(root, tp, sc["sched_seed"], servertype=sc["servertype"], tls=sc["context"],
                             conf=conf, timeout=60)
        viol = None
        counters = {}
        shapes = set()
        resps = []
        classes_in_list = [p.split(".")[1] for p in sc["protocols"]]
        seen = {}
        with run:
            # the list actually in effect (the shipped one is read from the repository's conf file)
            inplist = run.config.get("protocols.ProtocolMultiplexer", "protocols")
            classes_in_list = re.findall(r"\.(\w+)", inplist)
            cur_variant = sc["variant"]
            for i, cn in enumerate(sc["conns"]):
                rc = (sc.get("reconf") or {}).get(str(i))
                if rc:
                    run.config.set("protocols.ProtocolMultiplexer", "protocols", "[" + ", ".join(rc["protocols"]) + "]")
                    classes_in_list = [p.split(".")[1] for p in rc["protocols"]]
                    cur_variant = rc["variant"]
                    seen = {}
                    counters["reconfigured_live"] = counters.get("reconfigured_live", 0) + 1
                raw = cn["raw"].encode("latin-1")
                npc = len(run.protocol_choices)
                nhe = len(run.handle_errors)
                wraps0 = run.tlsctx.wrap_calls if run.tlsctx else 0
                c = run.client(raw, tls=cn["tls"], segments=cn["segments"], delays=cn["delays"],
                               half_close=cn["half_close"])
                st = run.go()
                resps.append(bytes(c.s2c))
                wrapped = (run.tlsctx.wrap_calls if run.tlsctx else 0) > wraps0
                pcs = run.protocol_choices[npc:]
                hes = run.handle_errors[nhe:]
                if cn["segments"] and cn["segments"][0] == 1 and len(cn["delays"]) > 1 and cn["delays"][1] > 0:
                    counters["first_byte_alone"] = counters.get("first_byte_alone", 0) + 1
                nline = len((cn["line"] or "") + cn["eol"]) + (13 if cn["tls"] else 0)
                if any(s > nline for s in cn["segments"]):
                    counters["header_block_segmented"] = counters.get("header_block_segmented", 0) + 1
                if wrapped:
                    counters["tls_wrapped"] = counters.get("tls_wrapped", 0) + 1
                sig = {"label": cn["label"], "variant": cur_variant}
                if cn["delays"] and cn["delays"][0] > 60.0:
                    # nothing arrived within the timeout: the connection is over before it began - no TLS
                    # session, no protocol, no answer (in particular no plaintext answer to a late TLS hello)
                    counters["silent_past_the_timeout"] = counters.get("silent_past_the_timeout", 0) + 1
                    if wrapped or pcs or bytes(c.s2c):
                        viol = {"oracle": "late-first-byte-dropped", "signature": dict(sig, oracle="late-first-byte-dropped"),
                                "detail": "first byte %.0f s after connecting (timeout 60): wrapped=%s protocol=%r response=%r" % (
                                    cn["delays"][0], wrapped, pcs[-1][1] if pcs else None, bytes(c.s2c)[:60])}
                        break
                    continue
                first = raw[:1] if not cn["tls"] else b"\x16"
                if first == b"\x16" and not sc["context"]:
                    counters["byte_0x16_without_context"] = counters.get("byte_0x16_without_context", 0) + 1
                # (1) TLS iff 0x16 (and only with a context)
                want_wrap = sc["context"] and first == b"\x16"
                if wrapped != want_wrap:
                    viol = {"oracle": "tls-iff-0x16", "signature": dict(sig, oracle="tls-iff-0x16", wrapped=wrapped),
                            "detail": "first byte %r context=%s segments=%r: wrapped=%s" % (
                                first, sc["context"], cn["segments"], wrapped)}
                    break
                if first == b"\x16" and sc["context"] and not cn["tls"]:
                    continue   # a broken TLS handshake: there is no request line to classify
                nline_b = (raw.index(b"\n") + 1 if b"\n" in raw else len(raw)) + (13 if cn["tls"] else 0)
                stalled_in_line = any(d > 60.0 for d in cn["delays"][1:]) and cn["segments"] and \
                    cn["segments"][0] < nline_b
                if stalled_in_line:
                    counters["stalled_inside_first_line"] = counters.get("stalled_inside_first_line", 0) + 1
                    if not pcs:
                        # the request line did not arrive within the timeout: no protocol may answer a fragment;
                        # dropping the connection is the right outcome
                        if bytes(c.s2c):
                            viol = {"oracle": "fragment-not-answered",
                                    "signature": dict(sig, oracle="fragment-not-answered"),
                                    "detail": "no protocol was selected for %r, yet %r was sent" % (raw[:60], bytes(c.s2c)[:60])}
                            break
                        continue
                if not pcs:
                    viol = {"oracle": "protocol-selected", "signature": dict(sig, oracle="protocol-selected"),
                            "detail": "no getProtocol call for %r; handle_error=%r state=%s" % (raw[:60], hes[:1], st)}
                    break
                addr, cls, seen_line = pcs[-1]
                # the line the handler read after the sniff
                payload = raw
                want_line = payload.split(b"\n", 1)[0] + (b"\n" if b"\n" in payload else b"")
                if seen_line.encode("utf-8", "surrogateescape") != want_line:
                    viol = {"oracle": "sniff-consumes-nothing",
                            "signature": dict(sig, oracle="sniff-consumes-nothing"),
                            "detail": "client sent %r, handler read %r (segments %r)" % (
                                want_line[:60], seen_line[:60], cn["segments"])}
                    break
                # (4) totality / no exception
                shipped_classes = cur_variant != "sublist"
                if cls is None or str(cls).startswith("EXC:"):
                    if shipped_classes or str(cls).startswith("EXC:"):
                        viol = {"oracle": "every-line-claimed",
                                "signature": dict(sig, oracle="every-line-claimed", got=str(cls)),
                                "detail": "line %r tls=%s -> %s (list %r)" % (want_line[:60], wrapped, cls, classes_in_list)}
                        break
                    continue
                # (3) strictness
                sec = run.protocol_secure[len(run.protocol_choices) - 1] if run.protocol_secure else SECURE.get(cls)
                if sec is not None and bool(sec) != wrapped:
                    viol = {"oracle": "tls-strict", "signature": dict(sig, oracle="tls-strict", cls=cls),
                            "detail": "%s answered a %s connection (line %r)" % (
                                cls, "TLS" if wrapped else "plaintext", want_line[:60])}
                    break
                # (2) determinism across segmentation / history
                key = (cn["raw"].split("\n", 1)[0], cn["tls"], cn["hv"])
                if key in seen and seen[key][0] != cls:
                    viol = {"oracle": "deterministic", "signature": dict(sig, oracle="deterministic"),
                            "detail": "same line %r tls=%s headers=%s -> %s (segments %r) but %s (segments %r)" % (
                                key[0][:60], cn["tls"], cn["hv"], seen[key][0], seen[key][1], cls, cn["segments"])}
                    break
                seen[key] = (cls, cn["segments"])
                # (5) order, for canonical shapes
                if cn["line"] is not None and cn["label"] != "random-bytes":
                    hdrs = HEADER_VARIANTS[cn["hv"]]
                    want = None
                    if cls not in SECURE or any(k not in SECURE for k in classes_in_list):
                        continue   # a class this model does not know: no verdict on order
                    for k in classes_in_list:
                        if shape_matches(k, cn["line"], wrapped, hdrs):
                            want = k
                            break
                    if want is not None and cls != want:
                        viol = {"oracle": "first-matching-protocol-wins",
                                "signature": dict(sig, oracle="first-matching-protocol-wins", got=cls, want=want,
                                                  hv=cn["hv"]),
                                "detail": "line %r tls=%s headers=%s list=%r: got %s, documented shapes say %s" % (
                                    cn["line"], wrapped, cn["hv"], classes_in_list, cls, want)}
                        break
                    if want is None and cls is not None:
                        viol = {"oracle": "only-a-matching-protocol-claims",
                                "signature": dict(sig, oracle="only-a-matching-protocol-claims", got=cls),
                                "detail": "line %r tls=%s list=%r: no documented shape in the list matches, yet %s answered" % (
                                    cn["line"], wrapped, classes_in_list, cls)}
                        break
                    if want == "WAPProtocol" and not cn["line"].split(" ")[1].startswith("/wap"):
                        counters["wap_autodetected"] = counters.get("wap_autodetected", 0) + 1
                shapes.add((cn["label"], wrapped, cn["hv"], cur_variant, cls))
            if sc["variant"] != "shipped":
                counters["list_permuted"] = 1
            run.shutdown()
            counters = common.merge_counters(counters, common.run_counters(run))
        nontrivial = any(cn["segments"] for cn in sc["conns"]) or sc["variant"] != "shipped"
        res = common.result(viol, None, counters, common.run_digest(run, resps), tp.rec,
                            run.sim.now - sched.EPOCH, run.sim.steps, run.sim.switches)
        res["shapes"] = [list(s) for s in sorted(shapes, key=repr)] if nontrivial else []
        return res


def shrink(sc):
    for cand in common.drop_each(sc["conns"]):
        if cand:
            yield dict(sc, conns=cand)
    for i, cn in enumerate(sc["conns"]):
        if cn["segments"] or any(cn["delays"]):
            yield dict(sc, conns=sc["conns"][:i] + [dict(cn, segments=[], delays=[])] + sc["conns"][i + 1:])
    if sc["servertype"] != "ThreadingTCPServer":
        yield dict(sc, servertype="ThreadingTCPServer")
    if sc.get("reconf"):
        yield {k: v for k, v in sc.items() if k != "reconf"}
