#!/usr/bin/env python
"""
C02 hunt, finding 1: a Gopher+ request that carries the optional dataFlag
field (``selector TAB + [TAB dataFlag]``, doc/standards/Gopher+.txt section
2.4) is not claimed by the Gopher+ protocol: the plain gopher0 protocol
answers it instead.

Run as:  cd /tmp/wt4-C02 && /venv/bin/python HUNT/1/demo.py
Exits 0 if every documented Gopher+ request line is answered by the Gopher+
protocol (the first protocol of the shipped list whose documented shape it
matches), non-zero otherwise.
"""
import io
import os
import shutil
import sys
import tempfile
import warnings

ROOT = os.path.dirname(os.path.dirname(os.path.dirname(os.path.abspath(__file__))))
sys.path.insert(0, ROOT)
os.chdir(ROOT)
warnings.simplefilter("ignore")

from pygopherd import initialization, testutil  # noqa: E402
from pygopherd.protocols import ProtocolMultiplexer  # noqa: E402
from pygopherd.protocols.gopherp import GopherPlusProtocol  # noqa: E402


class KeepOpen(io.BytesIO):
    def close(self):  # keep the bytes readable after finish()
        pass


def make_config(docroot):
    config = initialization.init_config("conf/pygopherd.conf")  # shipped config
    config.set("pygopherd", "root", docroot)
    config.set("pygopherd", "port", "0")
    config.set("pygopherd", "servertype", "ThreadingTCPServer")
    config.set("logger", "logmethod", "none")
    initialization.init_logger(config, "conf/pygopherd.conf")
    initialization.init_exceptions(config)
    initialization.init_mimetypes(config)
    return config


def serve(config, server, raw, tls=False):
    """Feed the bytes `raw` to the real GopherRequestHandler.handle();
    return (name of the protocol class that answered, response bytes)."""
    rfile, wfile = KeepOpen(raw), KeepOpen()
    cls = testutil.MockSSLRequest if tls else testutil.MockRequest
    handler = testutil.MockRequestHandler(
        cls(rfile, wfile), ("10.77.77.77", "7777"), server
    )
    answered = []
    real = ProtocolMultiplexer.getProtocol

    def spy(*a, **kw):
        p = real(*a, **kw)
        answered.append(p)
        return p

    ProtocolMultiplexer.getProtocol = spy
    try:
        handler.handle()
    finally:
        ProtocolMultiplexer.getProtocol = real
    return answered[0], wfile.getvalue()


def main():
    docroot = tempfile.mkdtemp(prefix="c02-1-")
    try:
        with open(os.path.join(docroot, "hello.txt"), "w") as fp:
            fp.write("HELLO-BODY\n")
        config = make_config(docroot)
        server = initialization.get_server(config)
        server.server_close()

        # Every one of these is a Gopher+ request per the standard shipped in
        # doc/standards/Gopher+.txt, section 2.4:
        #   selectorstring F + [representation] [F dataFlag] <CRLF> [datablock]
        #   "If dataFlag is '0', or nonexistent, then the client will not send
        #    any data besides the selector string."
        # and per the GopherPlusProtocol docstring ("the second parameter is !
        # or starts with + or $").
        cases = [
            # (request line, reference line without the optional dataFlag)
            (b"/hello.txt\t+\r\n", None),  # control
            (b"/hello.txt\t+\t0\r\n", b"/hello.txt\t+\r\n"),
            (b"/hello.txt\t+text/plain\t0\r\n", b"/hello.txt\t+text/plain\r\n"),
            (b"/\t+\t0\r\n", b"/\t+\r\n"),
            # dataFlag 1: a data block follows.  Only the framing of the
            # answer (Gopher+ '+'/'-' status line) is checked for this one.
            (b"/hello.txt\t+\t1\r\n+-1\r\n", None),
        ]
        failures = []
        for tls in (False, True):
            for raw, ref in cases:
                proto, out = serve(config, server, raw, tls)
                name = type(proto).__name__
                ok = isinstance(proto, GopherPlusProtocol) and proto.check_tls() == tls
                # A Gopher+ answer starts with '+<size>' or '-<code>'.
                ok = ok and out[:1] in (b"+", b"-")
                line = raw.split(b"\r\n")[0] + b"\r\n"
                print(
                    "%-5s %-34r -> %-26s response starts %r"
                    % ("TLS" if tls else "plain", line, name, out[:14])
                )
                if ref is not None:
                    _, refout = serve(config, server, ref, tls)
                    if out != refout:
                        ok = False
                if not ok:
                    failures.append((tls, line, name, out[:40]))

        if failures:
            print()
            print("PROPERTY C02 VIOLATED: %d documented Gopher+ request line(s) were" % len(failures))
            print("not claimed by the Gopher+ protocol (first protocol in the shipped")
            print("order whose documented shape they match); gopher0 answered instead:")
            for tls, line, name, out in failures:
                print("  tls=%s line=%r answered by %s: %r" % (tls, line, name, out))
            return 1
        print("ok: all documented Gopher+ request lines were answered by Gopher+")
        return 0
    finally:
        shutil.rmtree(docroot, ignore_errors=True)


if __name__ == "__main__":
    sys.exit(main())
