#!/usr/bin/env python
"""C03 hunt, finding 4.

ZIP.ZIPHandler enabled (handler list = default + ZIP.ZIPHandler).  Three
perfectly valid ZIP archives that the standard zipfile module opens without
complaint, but for which VFSZip raises exceptions that are neither OSError nor
FileNotFound, so nothing catches them:

  intl.zip    one member carries an Info-ZIP "Unicode Path" extra field
              (0x7075, written by Info-ZIP zip, WinZip, 7-Zip ... for
              non-ASCII names when general-purpose bit 11 is not set).
              Python >= 3.12 returns the Unicode name; populate_cache() then
              does filename.encode("cp437") -> UnicodeEncodeError.
              Every selector in the archive, the archive itself AND THE
              LISTING OF THE DIRECTORY THAT CONTAINS THE ARCHIVE get no
              response at all.
  locked.zip  password protected (traditional PKWARE encryption, what
              "zip -e" writes).  zip.open() raises RuntimeError: members get
              no response (or a success status and nothing else); the
              archive's own menu gets no response when it holds a .html
              member (the title handler opens it).
  big.zip     a member stored with method 9 (Deflate64; Windows Explorer uses
              it for large files).  zip.open() raises NotImplementedError:
              same symptoms.

Exit status 0 iff every request gets exactly one well-formed response.
"""
import builtins
import contextlib
import errno
import io
import os
import re
import shutil
import sys
import tempfile
import warnings

warnings.simplefilter("ignore")
ROOT = os.path.dirname(os.path.dirname(os.path.dirname(os.path.abspath(__file__))))
sys.path.insert(0, ROOT)
os.chdir(ROOT)

from pygopherd import GopherExceptions, gopherentry, initialization, logger, testutil  # noqa: E402
from pygopherd.handlers import HandlerMultiplexer, UMN  # noqa: E402
from pygopherd.handlers import base as hbase  # noqa: E402

LOG = []


def setup(root):
    config = initialization.init_config("conf/pygopherd.conf")
    config.set("pygopherd", "root", root)
    HandlerMultiplexer.handlers = None
    HandlerMultiplexer.rootpath = None
    hbase.rootpath = None
    gopherentry.mapping = None
    gopherentry.eaexts = None
    UMN.extstrip = None
    logger.log = LOG.append
    initialization.init_mimetypes(config)
    GopherExceptions.tracebacks = 0
    return config


class FakeServer:
    server_name = "localhost"
    server_port = 70


def request(config, data, tls=False):
    rfile = io.BytesIO(data.encode("utf-8", "surrogateescape"))
    wfile = io.BytesIO()
    wfile.close = lambda: None
    server = FakeServer()
    server.config = config
    sock = (testutil.MockSSLRequest if tls else testutil.MockRequest)(rfile, wfile)
    handler = testutil.MockRequestHandler(sock, ("10.77.77.77", "7777"), server)
    del LOG[:]
    stderr = io.StringIO()
    with contextlib.redirect_stderr(stderr):
        handler.handle()
    return wfile.getvalue(), list(LOG), stderr.getvalue()


# ---- what "one well-formed response" means, per protocol -------------------

def check_gopherplus(out):
    """One status line: either +<n>/+-1/+-2 followed by data, or --<n>
    followed by the error text.  Nothing that looks like a second status."""
    lines = out.split(b"\r\n")
    if not re.match(rb"^(\+-?\d+|--\d+)$", lines[0]):
        return "no Gopher+ status line: %r" % lines[0]
    m = re.match(rb"^\+(\d+)$", lines[0])
    if m and len(out) - len(lines[0]) - 2 != int(m.group(1)):
        return "status %r announces %s bytes, %d follow: %r" % (
            lines[0], m.group(1).decode(), len(out) - len(lines[0]) - 2, out[:80])
    if lines[0].startswith(b"+") and any(re.match(rb"^--\d+$", x) for x in lines[1:]):
        return "success status %r followed by an error status: %r" % (lines[0], out[:80])
    return None


def check_http(out):
    head, sep, body = out.partition(b"\r\n\r\n")
    if not sep or not re.match(rb"^HTTP/1\.[01] \d\d\d ", head):
        return "no HTTP status line / header block: %r" % out[:60]
    if re.search(rb"(^|\n)HTTP/1\.[01] \d\d\d ", body):
        return "second HTTP status line inside the body of the first: %r" % out[:200]
    return None


def check_statusline(pattern_ok):
    def check(out):
        line, sep, body = out.partition(b"\r\n")
        if not sep or not re.match(rb"^\d+ ", line):
            return "no status line: %r" % out[:60]
        if re.match(pattern_ok, line) and not body:
            return "success status %r but no document follows" % line
        return None
    return check


import struct
import zipfile
import zlib

HANDLERS = """[url.HTMLURLHandler, gophermap.BuckGophermapHandler,
    mbox.MaildirFolderHandler, mbox.MaildirMessageHandler,
    ZIP.ZIPHandler, UMN.UMNDirHandler, html.HTMLFileTitleHandler,
    mbox.MBoxMessageHandler, mbox.MBoxFolderHandler, file.FileHandler]"""


def make_unicode_path_zip(path):
    with zipfile.ZipFile(path, "w") as z:
        zi = zipfile.ZipInfo("Zusammenfassung_-_.txt")  # legacy (ASCII) name
        uname = "Zusammenfassung \u2013 \u65e5\u672c.txt".encode("utf-8")
        zi.extra = struct.pack("<HHBL", 0x7075, 5 + len(uname), 1,
                               zlib.crc32(zi.filename.encode("ascii"))) + uname
        z.writestr(zi, "summary\n")
        z.writestr("readme.txt", "plain member\n")


def _patch(buf, name, flag_or=0, method=None, crc=None, usize=None):
    """Patch the local and the central header of member `name`."""
    bname = name.encode("ascii")
    for sig, off_flag, off_nlen, hdr in ((b"PK\x03\x04", 6, 26, 30), (b"PK\x01\x02", 8, 28, 46)):
        pos = 0
        while True:
            pos = buf.find(sig, pos)
            if pos < 0:
                raise AssertionError("header not found")
            nlen = struct.unpack_from("<H", buf, pos + off_nlen)[0]
            if bytes(buf[pos + hdr:pos + hdr + nlen]) == bname:
                break
            pos += 4
        flag, meth = struct.unpack_from("<HH", buf, pos + off_flag)
        struct.pack_into("<HH", buf, pos + off_flag, flag | flag_or, meth if method is None else method)
        if crc is not None:
            struct.pack_into("<L", buf, pos + off_flag + 8, crc)
        if usize is not None:
            struct.pack_into("<L", buf, pos + off_flag + 16, usize)


def zipcrypto(plain, password, crc):
    # table-driven CRC step as in APPNOTE 6.1
    tab = []
    for i in range(256):
        c = i
        for _ in range(8):
            c = (c >> 1) ^ 0xEDB88320 if c & 1 else c >> 1
        tab.append(c)
    k = [0x12345678, 0x23456789, 0x34567890]

    def upd(b):
        k[0] = (k[0] >> 8) ^ tab[(k[0] ^ b) & 0xFF]
        k[1] = ((k[1] + (k[0] & 0xFF)) * 134775813 + 1) & 0xFFFFFFFF
        k[2] = (k[2] >> 8) ^ tab[(k[2] ^ (k[1] >> 24)) & 0xFF]

    for b in password:
        upd(b)
    out = bytearray()
    header = bytes(range(1, 12)) + bytes([crc >> 24])
    for b in header + plain:
        t = (k[2] | 2) & 0xFFFF
        out.append(b ^ (((t * (t ^ 1)) >> 8) & 0xFF))
        upd(b)
    return bytes(out)


def make_encrypted_zip(path, members, password=b"secret"):
    with zipfile.ZipFile(path, "w", zipfile.ZIP_STORED) as z:
        for name, data in members:
            z.writestr(name, zipcrypto(data, password, zlib.crc32(data)))
    buf = bytearray(open(path, "rb").read())
    for name, data in members:
        _patch(buf, name, flag_or=1, crc=zlib.crc32(data), usize=len(data))
    open(path, "wb").write(buf)
    with zipfile.ZipFile(path) as z:  # prove that the archive is good
        for name, data in members:
            assert z.read(name, pwd=password) == data


def make_deflate64_zip(path):
    data = b"A large report.\n" * 50
    # Stored deflate blocks (level 0) are identical in Deflate and Deflate64,
    # so this is a genuine method-9 member.
    co = zlib.compressobj(0, zlib.DEFLATED, -15)
    raw = co.compress(data) + co.flush()
    with zipfile.ZipFile(path, "w", zipfile.ZIP_STORED) as z:
        z.writestr("report.txt", raw)
        z.writestr("readme.txt", "plain member\n")
    buf = bytearray(open(path, "rb").read())
    _patch(buf, "report.txt", method=9, crc=zlib.crc32(data), usize=len(data))
    open(path, "wb").write(buf)


def any_response(out):
    return None if out else "no response at all (connection just closed)"


def main():
    failures = 0
    for label, maker, members in (
        ("intl.zip", make_unicode_path_zip, ["readme.txt"]),
        ("locked.zip", lambda p: make_encrypted_zip(
            p, [("letter.txt", b"Dear Sir,\n"), ("index.html", b"<html><title>Private</title></html>\n")]),
         ["letter.txt"]),
        ("big.zip", make_deflate64_zip, ["report.txt"]),
    ):
        root = tempfile.mkdtemp(prefix="c03-4-")
        try:
            with open(os.path.join(root, "about.txt"), "w") as fp:
                fp.write("about\n")
            maker(os.path.join(root, label))
            with zipfile.ZipFile(os.path.join(root, label)) as z:
                names = z.namelist()
            print("== %s: zipfile opens it, members %r" % (label, names))
            config = setup(root)
            config.set("handlers.HandlerMultiplexer", "handlers", HANDLERS)
            config.set("handlers.ZIP.ZIPHandler", "enabled", "true")
            probes = [
                ("gopher: directory holding the archive", "/\r\n", False, any_response),
                ("gopher: the archive", "/%s\r\n" % label, False, any_response),
                ("http: the archive", "GET /%s HTTP/1.0\r\n\r\n" % label, False, check_http),
            ]
            for m in members:
                sel = "/%s/%s" % (label, m)
                probes += [
                    ("gopher: member", sel + "\r\n", False, any_response),
                    ("gopher+: member", sel + "\t+\r\n", False, check_gopherplus),
                    ("http: member", "GET %s HTTP/1.0\r\n\r\n" % sel, False,
                     lambda o: check_http(o) or (None if not o.startswith(b"HTTP/1.0 200") or o.partition(b"\r\n\r\n")[2]
                                                 else "200 OK with an empty document (file is not empty)")),
                    ("gemini: member", "gemini://localhost%s\r\n" % sel, True, check_statusline(rb"^2\d ")),
                ]
            for name, req, tls, check in probes:
                out, log, err = request(config, req, tls)
                problems = []
                verdict = check(out)
                if verdict:
                    problems.append(verdict)
                errs = [x for x in log if "EXCEPTION" in x and "EXCEPTION FileNotFound" not in x]
                if errs:
                    problems.append("unhandled internal error: " + errs[0].split("EXCEPTION ", 1)[1][:100])
                if problems:
                    failures += 1
                    print("VIOLATION [%s] %r" % (name, req))
                    for p in problems:
                        print("    " + p)
                else:
                    print("ok        [%s] %r -> %r" % (name, req, out[:50]))
        finally:
            shutil.rmtree(root, ignore_errors=True)
    return 1 if failures else 0


if __name__ == "__main__":
    sys.exit(main())
