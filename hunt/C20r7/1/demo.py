#!/usr/bin/env python
"""C20 / send timeout over TLS.

The server's only send timeout is SO_SNDTIMEO on the listening socket
(server.py, BaseServer.server_bind).  On a plaintext connection an expired
SO_SNDTIMEO surfaces as an OSError from sendall() and the failure is contained
as the property says.  On a TLS connection (SecureGopher, Secure Gopher+,
HTTPS, Gemini) the same expiry is swallowed by the ssl module, which retries
the write for ever on a blocking socket: the stalled client's handler never
sees an error, so nothing is logged, the handler never returns and the document
it opened stays open for as long as the client cares to keep the connection.

The demo starts the real ThreadingTCPServer on 127.0.0.1 (ephemeral port) with
"timeout = 1", asks for a 64 MB document and then stops reading.  It waits 8
times the configured timeout and then checks what C20 promises for a send
timeout: a log line with the client's address and the error, the handler gone,
the document closed.  The plaintext run is the control (it passes).
"""
import atexit
import io
import os
import shutil
import socket
import ssl
import sys
import tempfile
import threading
import time
import warnings

ROOT = os.path.dirname(os.path.dirname(os.path.dirname(os.path.abspath(__file__))))
sys.path.insert(0, ROOT)
os.chdir(ROOT)
warnings.simplefilter("ignore")

import pygopherd  # noqa: E402

assert os.path.abspath(pygopherd.__file__).startswith(ROOT), pygopherd.__file__
from pygopherd import initialization, testutil  # noqa: E402
from pygopherd.server import GopherRequestHandler, ThreadingTCPServer  # noqa: E402

# server.py prints tracebacks of unexpected I/O errors to stderr: keep them out
# of the report
sys.stderr = io.StringIO()

TIMEOUT = 1  # seconds, [pygopherd] timeout
WAIT = 8 * TIMEOUT

tmp = tempfile.mkdtemp(prefix="c20-")
atexit.register(shutil.rmtree, tmp, True)
with open(os.path.join(tmp, "big.bin"), "wb") as f:
    f.write(b"x" * (64 << 20))
with open(os.path.join(tmp, "big.txt"), "wb") as f:
    f.write(b"line\n" * (12 << 20))

config = testutil.get_config()
config.set("pygopherd", "root", tmp)
config.set("pygopherd", "timeout", str(TIMEOUT))
logfp = testutil.get_string_logger()
initialization.init_mimetypes(config)

context = ssl.create_default_context(ssl.Purpose.CLIENT_AUTH)
context.load_cert_chain("testdata/demo.crt", "testdata/demo.key")


def open_documents():
    out = []
    for fd in os.listdir("/proc/self/fd"):
        try:
            target = os.readlink("/proc/self/fd/" + fd)
        except OSError:
            continue
        if target.startswith(tmp):
            out.append(target)
    return out


def scenario(name, tls, request):
    server = ThreadingTCPServer(
        config, ("127.0.0.1", 0), GopherRequestHandler, context=context
    )
    server.daemon_threads = True
    threading.Thread(target=server.serve_forever, daemon=True).start()
    base_threads = threading.active_count()
    logstart = len(logfp.getvalue())

    sock = socket.socket()
    sock.setsockopt(socket.SOL_SOCKET, socket.SO_RCVBUF, 4096)
    sock.connect(server.server_address)
    if tls:
        cctx = ssl.SSLContext(ssl.PROTOCOL_TLS_CLIENT)
        cctx.check_hostname = False
        cctx.verify_mode = ssl.CERT_NONE
        sock = cctx.wrap_socket(sock)
    sock.sendall(request)
    # ... and now the client stalls: it never reads the response.

    deadline = time.time() + WAIT
    while time.time() < deadline:
        log = logfp.getvalue()[logstart:]
        logged = [
            line
            for line in log.splitlines()
            if line.startswith("127.0.0.1 ") and "EXCEPTION" in line
        ]
        handler_alive = threading.active_count() > base_threads
        still_open = open_documents()
        if logged and not handler_alive and not still_open:
            break
        time.sleep(0.2)

    problems = []
    if not logged:
        problems.append("the send timeout was never logged")
    if handler_alive:
        problems.append("the connection's handler is still running")
    if still_open:
        problems.append("still open: %s" % ", ".join(still_open))
    print("%-28s %s" % (name, "ok: " + logged[0] if not problems else "VIOLATION"))
    for p in problems:
        print("    after %d s (timeout = %d s): %s" % (WAIT, TIMEOUT, p))
    if problems:
        print("    log of this connection: %r" % log)
    # let the stalled handler go, so that the next scenario starts clean
    sock.close()
    server.shutdown()
    t_end = time.time() + 5
    while threading.active_count() >= base_threads and time.time() < t_end:
        time.sleep(0.1)
    server.socket.close()
    return not problems


results = [
    scenario("plain gopher (control)", False, b"/big.bin\r\n"),
    scenario("plain HTTP (control)", False, b"GET /big.bin HTTP/1.0\r\n\r\n"),
    scenario("TLS gopher", True, b"/big.bin\r\n"),
    scenario("TLS gopher+", True, b"/big.bin\t+\r\n"),
    scenario("HTTPS", True, b"GET /big.bin HTTP/1.0\r\n\r\n"),
    scenario("Gemini", True, b"gemini://localhost/big.txt\r\n"),
]
if all(results):
    print("C20 holds for send timeouts on every protocol")
    sys.exit(0)
print("C20 violated: a send timeout on a TLS connection is never detected")
sys.exit(1)
