"""C12 demo 3: a symbolic link with an empty target stored in a ZIP archive (a link
that can never be resolved) makes the listing of the archive directory, and the
listing of the real directory that contains the archive, die with IndexError.

Run as:  cd /tmp/wt4-C12 && /venv/bin/python HUNT/3/demo.py
Exits 0 if every listing succeeds and contains every other entry.
"""
import io
import os
import shutil
import sys
import tempfile
import threading
import time
import warnings

ROOT = os.path.dirname(os.path.dirname(os.path.dirname(os.path.abspath(__file__))))
sys.path.insert(0, ROOT)
os.chdir(ROOT)
warnings.simplefilter("ignore")

from pygopherd import initialization, logger, testutil  # noqa: E402
from pygopherd.protocols import ProtocolMultiplexer  # noqa: E402
import pygopherd.handlers.HandlerMultiplexer as HM  # noqa: E402
import pygopherd.handlers.base as hbase  # noqa: E402

TIMEOUT = 2.0


class FakeServer:
    server_name = "localhost"
    server_port = 70


class FakeRequestHandler:
    def __init__(self, tls, rfile, wfile):
        self.client_address = ("10.1.1.1", 1234)
        cls = testutil.MockSSLRequest if tls else testutil.MockRequest
        self.request = cls(rfile, wfile)
        self.rfile, self.wfile = rfile, wfile


def make_config(root, handlers=None, cachetime=None):
    config = initialization.init_config("conf/pygopherd.conf")
    config.set("pygopherd", "root", root)
    config.set("logger", "logmethod", "none")
    if handlers:
        config.set("handlers.HandlerMultiplexer", "handlers", handlers)
    if cachetime is not None:
        config.set("handlers.dir.DirHandler", "cachetime", str(cachetime))
    logger.init(config)
    HM.handlers = None
    HM.rootpath = None
    hbase.rootpath = None
    return config


def do_request(config, line, tls=False):
    """Drive the real protocol + handler code in-process.  Returns
    (status, output) where status is 'ok', 'hang' or 'exception: ...'."""
    rfile = io.BytesIO(line.encode())
    wfile = io.BytesIO()
    server = FakeServer()
    server.config = config
    rh = FakeRequestHandler(tls, rfile, wfile)
    proto = ProtocolMultiplexer.getProtocol(
        rfile.readline().decode(), server, rh, rfile, wfile, config
    )
    result = {}

    def run():
        try:
            proto.handle()
            result["status"] = "ok"
        except BaseException as e:  # noqa
            result["status"] = "exception: %r" % (e,)

    t = threading.Thread(target=run, daemon=True)
    t.start()
    t.join(TIMEOUT)
    if t.is_alive():
        return "hang (no answer after %.0f s)" % TIMEOUT, wfile.getvalue()
    return result["status"], wfile.getvalue()


REQUESTS = [
    ("gopher", "/d\r\n", False),
    ("gopher+", "/d\t$\r\n", False),
    ("http", "GET /d HTTP/1.0\r\n\r\n", False),
    ("wap", "GET /wap/d HTTP/1.0\r\n\r\n", False),
    ("gemini", "gemini://localhost/d\r\n", True),
    ("spartan", "localhost /d 0\r\n", False),
]
import stat
import zipfile

ZIP_HANDLERS = """[url.HTMLURLHandler, gophermap.BuckGophermapHandler, ZIP.ZIPHandler,
    mbox.MaildirFolderHandler, mbox.MaildirMessageHandler, UMN.UMNDirHandler,
    html.HTMLFileTitleHandler, mbox.MBoxMessageHandler, mbox.MBoxFolderHandler,
    file.FileHandler]"""

LINK = stat.S_IFLNK | 0o777
# label -> extra archive members (name, unix mode, data)
CASES = [
    ("control: no link", []),
    ("control: ordinary dangling link (target 'nonexistent')", [("lnk", LINK, "nonexistent")]),
    ("single: link with empty target", [("lnk", LINK, "")]),
    ("pair: empty-target link + ordinary dangling link", [("lnk", LINK, ""), ("lnk2", LINK, "nonexistent")]),
]


def build_tree(extra):
    root = tempfile.mkdtemp(prefix="c12-3-")
    d = os.path.join(root, "d")
    os.mkdir(d)
    for name in ("alpha.txt", "beta.txt"):
        with open(os.path.join(d, name), "w") as fp:
            fp.write("hello\n")
    with zipfile.ZipFile(os.path.join(d, "x.zip"), "w") as z:
        z.writestr("one.txt", "1\n")
        z.writestr("sub/in.txt", "in\n")
        for name, mode, data in extra:
            zi = zipfile.ZipInfo(name)
            zi.external_attr = mode << 16
            z.writestr(zi, data)
        z.writestr("two.txt", "2\n")
    return root


# request selector -> the other entries its listing must contain
EXPECT = {
    "/d/x.zip": ["/d/x.zip/one.txt", "/d/x.zip/two.txt", "/d/x.zip/sub"],
    # x.zip itself may be left out of /d: it is the entry that cannot be served
    "/d": ["/d/alpha.txt", "/d/beta.txt"],
}


def main():
    failures = []
    roots = []
    mime_done = False
    for label, extra in CASES:
        for selector, others in EXPECT.items():
            for proto, line, tls in REQUESTS:
                line = line.replace("/d", selector)
                root = build_tree(extra)
                roots.append(root)
                config = make_config(root, ZIP_HANDLERS)
                config.set("handlers.ZIP.ZIPHandler", "enabled", "true")
                if not mime_done:
                    initialization.init_mimetypes(config)
                    mime_done = True
                status, out = do_request(config, line, tls)
                missing = [s for s in others if s.encode() not in out]
                good = status == "ok" and not missing
                if label.startswith("control"):
                    assert good, ("control failed", label, proto, status, out)
                elif not good:
                    failures.append((label, selector, proto))
                    print(
                        "VIOLATION [%s] %s request %r: %s; entries missing from the "
                        "listing: %s; bytes sent: %r"
                        % (label, proto, line, status, missing, out[:60])
                    )
    for root in roots:
        shutil.rmtree(root, ignore_errors=True)
    if failures:
        print()
        print(
            "%d listing(s) failed although the only unservable entry is the "
            "unresolvable link inside x.zip; the control archives (no link, or a "
            "link to a missing name) list one.txt, two.txt, sub and, one level "
            "up, alpha.txt and beta.txt on every protocol." % len(failures)
        )
        sys.stdout.flush()
        os._exit(1)
    print("OK: the unresolvable link never took a directory down")
    sys.exit(0)


main()
