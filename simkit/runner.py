"""Orchestrator: seeded batches of simulated runs on a process pool, evidence,
known findings, minimisation and replay files.

A check module provides:
  PROPERTY, LEVEL, RULE (string), RUNS = {"quick": n, "thorough": n}
  gen(seed, index, tier) -> scenario (JSON-serialisable dict)   [pure in seed]
  execute(scenario, tape=None) -> result dict:
      violation: None | {"oracle":..., "signature": {...}, "detail": str}
      shape: hashable/JSON key used for distinct_nontrivial (None = trivial run)
      counters: {name: int}     fault kinds fired, probes hit
      digest: str               event-log digest (determinism self-test)
      tape: [ints]              recorded schedule decisions
      sim_s: float              simulated seconds covered
  shrink(scenario) -> iterable of simpler scenarios (optional)
  ASSUMPTIONS, REAL, STUB (lists of strings, optional)
  SWEEP(tier) -> optional list of extra deterministic scenarios run first
  PROBES_REQUIRED (optional list of counter names that must be > 0)
"""
import concurrent.futures as cf
import faulthandler
import hashlib
import json
import multiprocessing as mp
import os
import signal
import subprocess
import sys
import time
import traceback

VERIF = os.path.dirname(os.path.dirname(os.path.abspath(__file__)))
KNOWN_FILE = os.path.join(VERIF, "known_findings.json")
RUN_WALL_LIMIT = int(os.environ.get("VERIF_RUN_WALL_S", "120"))


class RunTimeout(Exception):
    pass


def _alarm(signum, frame):
    raise RunTimeout("run exceeded %d s wall clock" % RUN_WALL_LIMIT)


def safe_execute(mod, scenario, tape=None):
    """execute() with a wall-clock watchdog; harness failures are classified
    apart from violations."""
    old = signal.signal(signal.SIGALRM, _alarm)
    signal.alarm(RUN_WALL_LIMIT)
    try:
        return mod.execute(scenario, tape)
    except Exception as e:
        if type(e).__name__ == "SutHang":
            # the system under test hung: a liveness violation, not a harness failure
            return {"violation": {"oracle": "bounded-steps",
                                  "signature": {"oracle": "bounded-steps", "why": e.reason},
                                  "detail": "the server never came back (%s)\n%s" % (e.reason, e.where)},
                    "shape": None, "counters": {"sut_hang": 1}, "digest": "hang", "tape": list(tape or []),
                    "sim_s": 0.0}
        if isinstance(e, RunTimeout):
            return {"harness_error": "timeout: %s" % e}
        return {"harness_error": "%s: %s\n%s" % (type(e).__name__, e, traceback.format_exc())}
    except RunTimeout as e:
        return {"harness_error": "timeout: %s" % e}
    except BaseException as e:  # noqa
        return {"harness_error": "%s: %s\n%s" % (type(e).__name__, e, traceback.format_exc())}
    finally:
        signal.alarm(0)
        signal.signal(signal.SIGALRM, old)


def _load(modname):
    import importlib
    return importlib.import_module("checks." + modname)


def _batch(modname, base_seed, tier, indices, explicit=None):
    """Worker: run a batch of scenarios; return a compact summary."""
    from .tape import derive_seed
    from . import harness
    faulthandler.enable()
    mod = _load(modname)
    out = {"n": 0, "shapes": set(), "counters": {}, "violations": [], "samples": [],
           "sim_s": 0.0, "digests": [], "harness_errors": [], "steps": 0, "switches": 0}
    try:
        items = []
        if explicit is not None:
            items = [(None, sc) for sc in explicit]
        else:
            for i in indices:
                seed = derive_seed(base_seed, mod.PROPERTY, i)
                items.append((i, mod.gen(seed, i, tier)))
        progdir = os.environ.get("VERIF_PROGRESS_DIR")
        progfile = os.path.join(progdir, "%d.json" % os.getpid()) if progdir else None
        for i, sc in items:
            if progfile:
                # what this worker is about to run: read by the parent if the process freezes in native code
                with open(progfile + ".tmp", "w") as f:
                    json.dump({"index": i, "scenario": sc}, f)
                os.replace(progfile + ".tmp", progfile)
            r = safe_execute(mod, sc)
            out["n"] += 1
            if r.get("harness_error"):
                out["harness_errors"].append({"index": i, "scenario": sc, "error": r["harness_error"]})
                continue
            sh = r.get("shape")
            if sh is not None:
                out["shapes"].add(json.dumps(sh, sort_keys=True))
            for sh in r.get("shapes") or []:
                out["shapes"].add(json.dumps(sh, sort_keys=True))
            for k, v in r.get("counters", {}).items():
                out["counters"][k] = out["counters"].get(k, 0) + v
            out["sim_s"] += r.get("sim_s", 0.0)
            out["steps"] += r.get("steps", 0)
            out["switches"] += r.get("switches", 0)
            out["digests"].append((i, r.get("digest")))
            if r.get("violation"):
                if len(out["violations"]) < 20:
                    out["violations"].append({"index": i, "scenario": sc, "tape": r.get("tape", []),
                                              "violation": r["violation"], "digest": r.get("digest")})
                else:
                    out["counters"]["violations_not_kept"] = out["counters"].get("violations_not_kept", 0) + 1
            if len(out["samples"]) < 2:
                out["samples"].append(sc)
    finally:
        harness.cleanup_process_scratch()
        try:
            if os.environ.get("VERIF_PROGRESS_DIR"):
                os.unlink(os.path.join(os.environ["VERIF_PROGRESS_DIR"], "%d.json" % os.getpid()))
        except OSError:
            pass
    out["shapes"] = sorted(out["shapes"])
    return out


def _trim(x, depth=0):
    """Samples are written out for a reader; long lists are cut (the cut is marked)."""
    if isinstance(x, dict):
        return {k: _trim(v, depth + 1) for k, v in x.items() if not str(k).startswith("_")}
    if isinstance(x, list):
        if len(x) > 8 and depth > 0:
            return [_trim(v, depth + 1) for v in x[:8]] + ["... %d more" % (len(x) - 8)]
        return [_trim(v, depth + 1) for v in x]
    if isinstance(x, str) and len(x) > 300:
        return x[:300] + "...(%d chars)" % len(x)
    return x


def load_known():
    try:
        with open(KNOWN_FILE) as f:
            return json.load(f).get("findings", [])
    except FileNotFoundError:
        return []


def match_known(prop, signature, known):
    for k in known:
        if k.get("property") != prop or k.get("status") != "known":
            continue
        m = k.get("match", {})
        if all(signature.get(a) == b for a, b in m.items()):
            return k
    return None


def sig_key(v):
    return json.dumps(v["signature"], sort_keys=True)


def minimise(mod, scenario, tape, violation, budget_s=60):
    """Greedy structure-aware shrinking: keep a simpler scenario when the same
    violation signature persists."""
    want = sig_key(violation)
    best_sc, best_tape, best_v = scenario, tape, violation
    t0 = time.time()
    shrink = getattr(mod, "shrink", None)
    improved = True
    rounds = 0
    while improved and time.time() - t0 < budget_s:
        improved = False
        rounds += 1
        if shrink is not None:
            for cand in shrink(best_sc):
                if time.time() - t0 > budget_s:
                    break
                r = safe_execute(mod, cand, None)
                if r.get("violation") and sig_key(r["violation"]) == want:
                    best_sc, best_tape, best_v = cand, r.get("tape", []), r["violation"]
                    improved = True
                    break
    # tape: truncate to the shortest prefix (rest = 0) that still fails
    tp = list(best_tape or [])
    if tp:
        lo, hi = 0, len(tp)
        r0 = safe_execute(mod, best_sc, [])
        if r0.get("violation") and sig_key(r0["violation"]) == want:
            tp = []
        else:
            while lo < hi and time.time() - t0 < budget_s * 2:
                mid = (lo + hi) // 2
                r = safe_execute(mod, best_sc, tp[:mid])
                if r.get("violation") and sig_key(r["violation"]) == want:
                    hi = mid
                else:
                    lo = mid + 1
            tp = tp[:hi]
            # zero individual entries from the end
            for i in range(len(tp) - 1, -1, -1):
                if time.time() - t0 > budget_s * 2:
                    break
                if tp[i] == 0:
                    continue
                t2 = list(tp)
                t2[i] = 0
                r = safe_execute(mod, best_sc, t2)
                if r.get("violation") and sig_key(r["violation"]) == want:
                    tp = t2
    return best_sc, tp, best_v


def write_replay(mod, seed, scenario, tape, violation, digest=None):
    d = os.environ.get("VERIF_REPLAY_DIR") or os.path.join(VERIF, "replays")
    os.makedirs(d, exist_ok=True)
    h = hashlib.sha256(json.dumps([scenario, tape], sort_keys=True).encode()).hexdigest()[:10]
    path = os.path.join(d, "%s-%s-%s.json" % (mod.PROPERTY, seed, h))
    with open(path, "w") as f:
        json.dump({"property": mod.PROPERTY, "seed": seed, "scenario": scenario,
                   "tape": tape, "violation": violation}, f, indent=1, sort_keys=True)
    return path


def replay_file(modname, path):
    """Re-run a replay file in this (fresh) interpreter.  Exit 1 + VIOLATION
    line when the recorded violation reproduces."""
    mod = _load(modname)
    with open(path) as f:
        rp = json.load(f)
    if ((rp.get("violation") or {}).get("signature") or {}).get("why") == "no-return":
        # the recorded run never came back: replay it in a child process under the same wall limit
        outcome = _run_with_wall_limit(mod, rp["scenario"], rp.get("tape", []), FROZEN_S + 15)
        if outcome in ("no-return", "returned:4"):
            print("replayed: %s" % ("the run did not return within %.0f s (child process killed)" % (FROZEN_S + 15)
                                    if outcome == "no-return" else
                                    "the server hung inside the run (ended by the simulator's watchdog on this, less "
                                    "loaded, machine)"))
            print("VIOLATION property=%s replay=%s" % (mod.PROPERTY, path))
            return 1
        print("replay did not reproduce the recorded violation (the run came back: %s)" % outcome)
        return 0
    r = safe_execute(mod, rp["scenario"], rp.get("tape", []))
    if r.get("harness_error"):
        print("HARNESS-ERROR during replay:", r["harness_error"])
        return 2
    v = r.get("violation")
    want = rp.get("violation")
    if v and (want is None or sig_key(v) == sig_key(want)):
        print("replayed: %s" % json.dumps(v, sort_keys=True)[:2000])
        print("digest=%s" % r.get("digest"))
        print("VIOLATION property=%s replay=%s" % (mod.PROPERTY, path))
        return 1
    print("replay did not reproduce the recorded violation (got %r)" % (v,))
    return 0


def _verify_in_fresh_interpreter(modname, path):
    p = subprocess.run([sys.executable, os.path.join(VERIF, "simkit", "cli.py"), modname,
                        "--replay", path], capture_output=True, text=True, timeout=600,
                       env=dict(os.environ, VERIF_NO_REEXEC="1"))
    return p.returncode == 1 and "VIOLATION property=" in p.stdout, p.stdout + p.stderr


FROZEN_S = float(os.environ.get("VERIF_FROZEN_S", "75"))


def _cpu_seconds(pid):
    try:
        with open("/proc/%d/stat" % pid) as f:
            parts = f.read().rsplit(")", 1)[1].split()
        return (int(parts[11]) + int(parts[12])) / float(os.sysconf("SC_CLK_TCK"))
    except (OSError, ValueError, IndexError):
        return None


def _frozen_monitor(progdir, stop, found, kill):
    """A worker that has been inside ONE run for FROZEN_S wall seconds while burning CPU all along is frozen in
    native code (e.g. a regular expression that backtracks for ever): neither the simulator's watchdog nor the
    in-process alarm can interrupt that.  The parent records what it was running and kills the pool."""
    seen = {}
    while not stop.wait(3.0):
        try:
            names = os.listdir(progdir)
        except OSError:
            return
        for n in names:
            if not n.endswith(".json"):
                continue
            path = os.path.join(progdir, n)
            try:
                pid = int(n[:-5])
                mt = os.stat(path).st_mtime
            except (OSError, ValueError):
                continue
            cpu = _cpu_seconds(pid)
            if cpu is None:
                continue
            if pid not in seen or seen[pid][0] != mt:
                seen[pid] = (mt, cpu, time.time())
                continue
            age = time.time() - seen[pid][2]
            if age > FROZEN_S and cpu - seen[pid][1] > 0.4 * age:
                try:
                    with open(path) as f:
                        found.append(dict(json.load(f), pid=pid, age=age, cpu=cpu - seen[pid][1]))
                except (OSError, ValueError):
                    continue
                kill()
                return


def _run_with_wall_limit(mod, scenario, tape, limit):
    """Run one scenario in a forked child; returns 'no-return' if it is still running after limit seconds."""
    pid = os.fork()
    if pid == 0:
        code = 0
        try:
            r = safe_execute(mod, scenario, tape)
            code = 3 if r.get("violation") else (2 if r.get("harness_error") else 0)
            if r.get("violation") and r["violation"].get("oracle") == "bounded-steps":
                code = 4    # the simulator's own watchdog saw the hang (and could end it)
        finally:
            os._exit(code)
    t0 = time.time()
    while time.time() - t0 < limit:
        p, st = os.waitpid(pid, os.WNOHANG)
        if p:
            return "returned:%d" % (st >> 8)
        time.sleep(0.5)
    os.kill(pid, signal.SIGKILL)
    os.waitpid(pid, 0)
    return "no-return"


def run_check(modname, tier="quick"):
    mod = _load(modname)
    t0 = time.time()
    base_seed = int(os.environ.get("VERIF_SEED", "0") or 0)
    jobs = int(os.environ.get("VERIF_JOBS", "0") or 0) or min(16, os.cpu_count() or 4)
    budget = float(os.environ.get("VERIF_BUDGET_S", "0") or 0) or (
        {"quick": 120, "thorough": 1500}[tier])
    nruns = int(os.environ.get("VERIF_RUNS", "0") or 0) or mod.RUNS[tier]
    bsize = getattr(mod, "BATCH", 20)
    print("check %s tier=%s seed=%d runs=%d jobs=%d" % (mod.PROPERTY, tier, base_seed, nruns, jobs))
    sys.stdout.flush()

    agg = {"n": 0, "shapes": set(), "counters": {}, "violations": [], "samples": [],
           "sim_s": 0.0, "harness_errors": [], "steps": 0, "switches": 0}
    sweep = []
    if hasattr(mod, "SWEEP"):
        sweep = list(mod.SWEEP(tier))
    ctx = mp.get_context("fork")
    truncated = False
    exhaustive_sweep = False
    import shutil
    import tempfile
    import threading
    progdir = tempfile.mkdtemp(prefix="verif-prog-", dir="/dev/shm" if os.path.isdir("/dev/shm") else None)
    os.environ["VERIF_PROGRESS_DIR"] = progdir
    frozen = []
    mon_stop = threading.Event()
    with cf.ProcessPoolExecutor(max_workers=jobs, mp_context=ctx) as ex:
        def _kill_pool():
            for pr in list(getattr(ex, "_processes", {}).values()):
                try:
                    pr.kill()
                except Exception:
                    pass
        mon = threading.Thread(target=_frozen_monitor, args=(progdir, mon_stop, frozen, _kill_pool), daemon=True)
        mon.start()
        futs = []
        for j in range(0, len(sweep), bsize):
            futs.append(ex.submit(_batch, modname, base_seed, tier, None, sweep[j:j + bsize]))
        for j in range(0, nruns, bsize):
            futs.append(ex.submit(_batch, modname, base_seed, tier,
                                  list(range(j, min(nruns, j + bsize)))))
        try:
            for fu in futs:
                remaining = budget - (time.time() - t0)
                if remaining <= 0:
                    truncated = True
                    for f2 in futs:
                        f2.cancel()
                    break
                try:
                    r = fu.result(timeout=max(1.0, remaining + RUN_WALL_LIMIT))
                except cf.CancelledError:
                    truncated = True
                    continue
                agg["n"] += r["n"]
                agg["shapes"].update(r["shapes"])
                for k, v in r["counters"].items():
                    agg["counters"][k] = agg["counters"].get(k, 0) + v
                agg["violations"].extend(r["violations"])
                agg["harness_errors"].extend(r["harness_errors"])
                agg["sim_s"] += r["sim_s"]
                agg["steps"] += r["steps"]
                agg["switches"] += r["switches"]
                if len(agg["samples"]) < 3:
                    agg["samples"].extend(r["samples"][: 3 - len(agg["samples"])])
        except (cf.process.BrokenProcessPool, cf.TimeoutError) as e:
            mon_stop.set()
            if not frozen:
                print("HARNESS-ERROR: worker pool failed: %r" % (e,))
                shutil.rmtree(progdir, ignore_errors=True)
                return 2
            truncated = True
        finally:
            mon_stop.set()
    shutil.rmtree(progdir, ignore_errors=True)
    os.environ.pop("VERIF_PROGRESS_DIR", None)
    for fz in frozen:
        agg["counters"]["worker_frozen_in_native_code"] = agg["counters"].get("worker_frozen_in_native_code", 0) + 1
        agg["violations"].append({
            "index": fz.get("index"), "scenario": fz["scenario"], "tape": [], "frozen": True, "digest": "frozen",
            "violation": {"oracle": "bounded-time",
                          "signature": {"oracle": "bounded-time", "why": "no-return"},
                          "detail": "the run did not return: its worker process spent %.0f s inside it, burning %.0f s "
                                    "of CPU without reaching a scheduling point (frozen in native code); the process "
                                    "was killed" % (fz["age"], fz["cpu"])}})
    if sweep and not truncated:
        exhaustive_sweep = True

    if agg["harness_errors"]:
        he = agg["harness_errors"][0]
        print("HARNESS-ERROR (%d runs): %s" % (len(agg["harness_errors"]), he["error"][:3000]))
        print("scenario: %s" % json.dumps(he["scenario"])[:2000])
        return 2

    # ---- violations
    known = load_known()
    by_sig = {}
    for v in agg["violations"]:
        by_sig.setdefault(sig_key(v["violation"]), []).append(v)
    known_hits = {}
    new_paths = []
    extra_sigs = 0
    rc = 0
    for sk, vs in sorted(by_sig.items()):
        v = vs[0]
        k = match_known(mod.PROPERTY, v["violation"]["signature"], known)
        if k is not None:
            known_hits.setdefault(k["id"], [k, 0])[1] += len(vs)
            continue
        if len(new_paths) >= 8:
            extra_sigs = extra_sigs + 1
            continue
        if v.get("frozen"):
            sc, tp, vio = v["scenario"], v["tape"], v["violation"]
        elif len(new_paths) < 3:
            sc, tp, vio = minimise(mod, v["scenario"], v["tape"], v["violation"],
                                   budget_s=float(os.environ.get("VERIF_MIN_S", "45")))
        else:
            sc, tp, vio = v["scenario"], v["tape"], v["violation"]
        path = write_replay(mod, base_seed, sc, tp, vio)
        ok, outp = _verify_in_fresh_interpreter(modname, path)
        if not ok:
            # fall back to the unminimised scenario
            path2 = write_replay(mod, base_seed, v["scenario"], v["tape"], v["violation"])
            ok2, outp2 = _verify_in_fresh_interpreter(modname, path2)
            if not ok2:
                print("HARNESS-ERROR: violation %s does not reproduce in a fresh interpreter"
                      % sk)
                print(outp[-1500:])
                print(outp2[-1500:])
                return 2
            path, vio = path2, v["violation"]
        print("violation: %s" % json.dumps(vio, sort_keys=True)[:1500])
        print("VIOLATION property=%s replay=%s" % (mod.PROPERTY, path))
        new_paths.append(path)
        rc = 1
    if extra_sigs:
        print("(%d further distinct violation signatures not written out)" % extra_sigs)
    for kid, (k, n) in sorted(known_hits.items()):
        print("KNOWN-FINDING: property=%s %s (%s; seen %d times this run)"
              % (mod.PROPERTY, k["what"], kid, n))

    # ---- probes
    assumptions = list(getattr(mod, "ASSUMPTIONS", []))
    for p in getattr(mod, "PROBES_REQUIRED", []):
        if agg["counters"].get(p, 0) == 0 and not truncated:
            assumptions.append("PROBE STUCK AT ZERO: %s (workload did not reach it)" % p)
            print("warning: probe %s stuck at zero" % p)

    wall = time.time() - t0
    ev = {
        "property_id": mod.PROPERTY,
        "tier": tier,
        "seed": base_seed,
        "level": mod.LEVEL,
        "coverage": {
            "evaluations": agg["n"],
            "distinct_nontrivial": len(agg["shapes"]),
            "rule": mod.RULE,
            "samples": [_trim(x) for x in agg["samples"][:3]],
            "exhaustive": bool(getattr(mod, "EXHAUSTIVE_SWEEP", False) and exhaustive_sweep),
            "sweep_cases": len(sweep),
            "counters_fired": dict(sorted(agg["counters"].items())),
            "simulated_seconds": round(agg["sim_s"], 3),
            "scheduler_steps": agg["steps"],
            "context_switches": agg["switches"],
            "runs_per_hour": int(agg["n"] / wall * 3600) if wall > 0 else 0,
            "seeds_per_hour": int(agg["n"] / wall * 3600) if wall > 0 else 0,
            "workers": jobs,
            "truncated_by_budget": truncated,
            "real_components": getattr(mod, "REAL", []),
            "stub_components": getattr(mod, "STUB", []),
            "known_findings_matched": sorted(known_hits.keys()),
            "replays": new_paths,
        },
        "assumptions": assumptions,
        "wall_s": round(wall, 2),
        "violations": len(new_paths),
    }
    evdir = os.environ.get("VERIF_EVIDENCE_DIR") or os.path.join(VERIF, "evidence")
    os.makedirs(evdir, exist_ok=True)
    with open(os.path.join(evdir, "%s.json" % mod.PROPERTY), "w") as f:
        json.dump(ev, f, indent=1, sort_keys=True)
    print("%s: %d runs, %d distinct non-trivial, %.1f s, %d new violation(s), %d known"
          % (mod.PROPERTY, agg["n"], len(agg["shapes"]), wall, len(new_paths), len(known_hits)))
    return rc
