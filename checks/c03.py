"""C03 - every request is answered with one well-formed response, whatever
came before.

A history: one world, ONE long-lived server state (module lazies, cache files
accumulating in the tree, ZIP index caches), a sequence of 4-16 connections
mixing protocols, TLS, valid and malformed request lines, with seeded clock
advances between them (across the cache lifetime), seeded segmentation,
missing half-close and missing body bytes.

Oracles per connection: (1) exactly one response: the server wrote, then
closed, and nothing was written after the close; (2) the response is
syntactically valid for the protocol class that answered (independent
validators); (3) no unhandled internal error (no EXCEPTION log record other
than FileNotFound or an OSError turned into the protocol's error reply, no
socketserver.handle_error, no exception out of protocol selection);
(4) history independence: the bytes equal the reference server's answer to
the same request alone on a pristine copy of the world (directory timestamps
normalised); (5) bounded time on the simulated clock: closed within
timeout + 1 simulated seconds of the last client byte.
"""
import os
import random
import shutil

from simkit import harness, proto, sched, world, fs as simfs
from simkit.tape import Tape
from . import common
from . import c20

PROPERTY = "C03"
LEVEL = "exploration"
RUNS = {"quick": 1400, "thorough": 30000}
BATCH = 12
RULE = ("seeded histories of 4-16 connections drawn from a request grammar (valid requests for every object kind "
        "in every protocol + malformed shapes: empty Gopher+ fields, NUL, out-of-range / non-numeric message "
        "numbers, virtual arguments on the wrong object, malformed Gemini authorities, percent-encoded CR/LF, "
        "Spartan bodies shorter than announced, missing blank line / half-close, binary garbage, long selectors) "
        "x handler list x server type x TLS configured or not, with clock advances across the cache lifetime; "
        "non-trivial = a request was preceded in its history by a request that left a cache file or by a clock "
        "jump; distinct = distinct (protocol class, request shape label, object kind, preceded-by-cache-write) tuples")
REAL = common.REAL
STUB = common.STUB
ASSUMPTIONS = [
    "an EXCEPTION log record of an OSError subclass counts as handled when the response is the protocol's own "
    "error reply (that is the mechanism the code documents); any other exception class is an internal error",
    "TLS handshakes are always well-formed here (the TLS layer is a stub)",
]
PROBES_REQUIRED = ["preceded_by_cache_write", "clock_crossed_lifetime", "recv_timeout_used", "malformed_requests"]
TIMEOUT = 60

KINDS = c20.KINDS
OBJ = sorted(KINDS)


def _sel(rng, focus=None):
    if focus is not None and rng.random() < 0.5:
        k = rng.choice(focus) if isinstance(focus, list) else focus
        return k, KINDS[k]
    k = rng.choice(OBJ)
    return k, KINDS[k]


OPENFAULT_REL = {"doc-small": "small.txt", "doc-large": "big.txt", "html": "page.html", "gz": "z.txt.gz",
                 "tal": "t.html.tal", "mbox-folder": "mail.mbox"}


def gen_request(rng, focus=None):
    """One request from the grammar.  Returns dict(data=latin-1 str, tls, half_close, label, kind)."""
    r = rng.random()
    half_close = rng.random() < 0.8
    if r < 0.45:
        kind, sel = _sel(rng, focus)
        p = rng.choice(c20.PROTOS + ["wap-auto"])
        if focus is not None and rng.random() < 0.4:
            p = rng.choice(["gopher!", "gopher$", "gopher+", "http", "gopher"])   # info-bearing views
        search = rng.choice([None, None, None, "needle", "two words"])
        req, tls = proto.make_request(p, sel, search)
        rq = {"data": req.decode("latin-1"), "tls": tls, "half_close": half_close,
              "label": "valid-" + p, "kind": kind}
        if kind in OPENFAULT_REL and rng.random() < 0.15:
            # the file can be stat'ed but not opened (mode 000 for a server that is not root, EMFILE, EIO)
            rq["openfault"] = rng.choice(["EACCES", "EMFILE", "EIO"])
            rq["label"] = "valid-openfault-" + p
        return rq
    kind, sel = _sel(rng, focus)
    selb = sel.encode()
    if focus is not None and rng.random() < 0.35:
        # another spelling of the same object (these share cache files with the plain spelling)
        alt = rng.choice([selb + b"/", selb + b"//", selb + b"///", b"/" + selb, selb + b"/.", selb + b"|",
                          selb + b"?", b"/1" + selb, selb.replace(b"/", b"//", 1)])
        p2 = rng.choice(["gopher", "gopher", "http", "spartan", "gopher$"])
        if p2 == "gopher":
            data = alt + b"\r\n"
        elif p2 == "gopher$":
            data = alt + b"\t$\r\n"
        elif p2 == "http":
            data = b"GET " + alt + b" HTTP/1.0\r\n\r\n"
        else:
            data = b"h " + alt + b" 0\r\n"
        return {"data": data.decode("latin-1"), "tls": False, "half_close": True,
                "label": "alt-spelling", "kind": kind}
    forms = []
    # --- Gopher family malformed shapes
    forms += [
        ("gopher-empty", b"\r\n", False), ("gopher-nothing", b"", False), ("gopher-lf-only", b"\n", False),
        ("gopherp-empty-field", selb + b"\t\r\n", False),
        ("gopherp-empty-field3", selb + b"\tquery\t\r\n", False),
        ("gopherp-two-empty", selb + b"\t\t\r\n", False),
        ("gopher-many-tabs", selb + b"\ta\tb\tc\td\r\n", False),
        ("gopherp-bang-extra", selb + b"\t!\textra\r\n", False),
        ("gopherp-dollar-file", selb + b"\t$\r\n", False),
        ("gopherp-plus-view", selb + b"\t+text/plain\r\n", False),
        ("gopher-nul", selb + b"\x00x\r\n", False),
        ("gopher-binary", bytes(rng.randrange(256) for _ in range(rng.randrange(1, 40))) + b"\r\n", False),
        ("gopher-long", b"/" + b"a" * rng.choice([300, 5000, 70000]) + b"\r\n", False),
        ("gopher-no-newline", selb, False),
        ("gopher-spaces", b"  " + selb + b"  \r\n", False),
        ("gopher-0x16-plain", b"\x16\x03\x01" + selb + b"\r\n", False),
        ("sgopher-nul", b"/a\x00b\r\n", True),
    ]
    # --- virtual arguments
    n = rng.choice([0, 1, 2, 3, 4, 999, 10 ** 30])
    huge = b"9" * rng.choice([4000, 5000, 20000])
    forms += [
        ("mbox-range", b"/mail.mbox|/MBOX-MESSAGE/%d\r\n" % n, False),
        ("mbox-nonnum", b"/mail.mbox|/MBOX-MESSAGE/abc\r\n", False),
        ("mbox-huge-number", b"/mail.mbox|/MBOX-MESSAGE/" + huge + b"\r\n", False),
        ("maildir-huge-number", b"/md|/MAILDIR-MESSAGE/" + huge + b"\r\n", False),
        ("script-search-nul", b"/script.sh\ta\x00b\r\n", False),
        ("script-search-nul-http", b"GET /script.sh?searchrequest=a%00b HTTP/1.0\r\n\r\n", False),
        ("script-search-nul-gemini", b"gemini://h/script.sh?a%00b\r\n", True),
        ("script-args-nul", b"/script.sh|a\x00b\r\n", False),
        ("script-args-many", b"/script.sh|" + b"x " * 300 + b"\r\n", False),
        ("mbox-on-text", b"/small.txt|/MBOX-MESSAGE/1\r\n", False),
        ("mbox-on-missing", b"/nonexistent|/MBOX-MESSAGE/1\r\n", False),
        ("mbox-on-dir", b"/docs|/MBOX-MESSAGE/1\r\n", False),
        ("maildir-range", b"/md|/MAILDIR-MESSAGE/%d\r\n" % n, False),
        ("maildir-on-file", b"/small.txt|/MAILDIR-MESSAGE/1\r\n", False),
        ("maildir-on-mbox", b"/mail.mbox|/MAILDIR-MESSAGE/1\r\n", False),
        ("args-question", selb + b"?a=b\r\n", False),
        ("args-pipe", selb + b"|x y z\r\n", False),
        ("args-empty", selb + b"|\r\n", False),
        ("zip-missing-member", b"/arc.zip/nope/x\r\n", False),
        ("zip-dir-slash", b"/arc.zip/d/\r\n", False),
        ("zip-args", b"/arc.zip/d/b.txt|/MBOX-MESSAGE/1\r\n", False),
        ("type-rewrite", b"/1" + selb + b"\r\n", False),
        ("type-rewrite-twice", b"/1/0" + selb + b"\r\n", False),
        ("url-noscheme", b"URL:foo\r\n", False),
        ("url-quote", b"URL:http://x/\"y\r\n", False),
        ("gophermap-file", b"/gm/gophermap\r\n", False),
        ("cap-dir", b"/docs/.cap\r\n", False),
        ("cache-file", b"/docs/.cache.pygopherd.dir\r\n", False),
        ("trailing-slashes", selb + b"//\r\n", False),
    ]
    # --- HTTP / WAP
    q = proto.quote(sel).encode()
    forms += [
        ("http-no-blank", b"GET " + q + b" HTTP/1.0\r\nHost: x\r\n", False),
        ("http-no-headers-no-fin", b"GET " + q + b" HTTP/1.0\r\n", False),
        ("http-09", b"GET " + q + b"\r\n", False),
        ("http-double-space", b"GET  " + q + b" HTTP/1.0\r\n\r\n", False),
        ("http-lowercase", b"get " + q + b" HTTP/1.0\r\n\r\n", False),
        ("http-post", b"POST " + q + b" HTTP/1.0\r\n\r\n", False),
        ("http-pct-nul", b"GET /a%00b HTTP/1.0\r\n\r\n", False),
        ("http-pct-crlf", b"GET /a%0d%0aSet-Cookie:x HTTP/1.0\r\n\r\n", False),
        ("http-bad-pct", b"GET /%zz%1 HTTP/1.0\r\n\r\n", False),
        ("http-query-only", b"GET ?searchrequest=x HTTP/1.0\r\n\r\n", False),
        ("http-query-empty", b"GET " + q + b"?searchrequest= HTTP/1.0\r\n\r\n", False),
        ("http-icon", b"GET /PYGOPHERD-HTTPPROTO-ICONS/text.gif HTTP/1.0\r\n\r\n", False),
        ("http-icon-missing", b"GET /PYGOPHERD-HTTPPROTO-ICONS/nope.gif HTTP/1.0\r\n\r\n", False),
        ("http-header-junk", b"GET " + q + b" HTTP/1.0\r\nno colon here\r\n: empty\r\nA:b\r\n\r\n", False),
        ("http-non-ascii", b"GET /caf\xe9 HTTP/1.0\r\n\r\n", False),
        ("https-head", b"HEAD " + q + b" HTTP/1.1\r\n\r\n", True),
        ("http-many-query-fields", b"GET " + selb + b"?" + b"&".join(b"f%d=%d" % (i, i) for i in range(40)) + b" HTTP/1.0\r\n\r\n", False),
        ("http-many-empty-query-fields", b"GET /?" + b"&" * 30 + b" HTTP/1.0\r\n\r\n", False),
        ("wap-many-query-fields", b"GET /wap" + selb + b"?" + b";".join(b"k%d=v" % i for i in range(25)) + b"&" * 20 + b" HTTP/1.0\r\n\r\n", False),
        ("wap-top-only", b"GET /wap HTTP/1.0\r\n\r\n", False),
        ("wap-missing", b"GET /wap/nope HTTP/1.0\r\n\r\n", False),
        ("http-tab", b"GET\t" + q + b"\tHTTP/1.0\r\n\r\n", False),
    ]
    # --- Gemini
    forms += [
        ("gemini-bad-authority", b"gemini://[/\r\n", True),
        ("gemini-bad-port", b"gemini://host:abc" + q + b"\r\n", True),
        ("gemini-no-path", b"gemini://sim.example.org\r\n", True),
        ("gemini-empty", b"gemini://\r\n", True),
        ("gemini-nul", b"gemini://h/a\x00b\r\n", True),
        ("gemini-pct-nul", b"gemini://h/a%00b\r\n", True),
        ("gemini-pct-lf", b"gemini://h/nope%0Ainjected\r\n", True),
        ("gemini-pct-crlf", b"gemini://h/nope%0D%0A20 text/plain\r\n", True),
        ("gemini-query-prefix", b"gemini://h/GEMINI-QUERY" + q + b"\r\n", True),
        ("gemini-query-prefix-q", b"gemini://h/GEMINI-QUERY" + q + b"?abc\r\n", True),
        ("gemini-query", b"gemini://h" + q + b"?a%20b\r\n", True),
        ("gemini-fragment", b"gemini://h" + q + b"#frag\r\n", True),
        ("gemini-userinfo", b"gemini://u:p@h:1965" + q + b"\r\n", True),
        ("gemini-plaintext", b"gemini://h" + q + b"\r\n", False),
        ("gemini-non-utf8", b"gemini://h/\xff\xfe\r\n", True),
        ("gemini-long", b"gemini://h/" + b"b" * 3000 + b"\r\n", True),
        ("gemini-upper", b"GEMINI://h" + q + b"\r\n", True),
    ]
    # --- Spartan
    body = b"search words"
    forms += [
        ("spartan-short-body", b"h " + q + b" 50\r\n" + body, False),
        ("spartan-no-body", b"h " + q + b" 12\r\n", False),
        ("spartan-body", b"h " + q + b" %d\r\n" % len(body) + body, False),
        ("spartan-extra-body", b"h " + q + b" 3\r\n" + body, False),
        ("spartan-neg", b"h " + q + b" -1\r\n", False),
        ("spartan-huge", b"h " + q + b" 99999999999999999999\r\n", False),
        ("spartan-huge-digits", b"h " + q + b" " + b"0" * 5000 + b"\r\n", False),
        ("spartan-body-nul-script", b"h /script.sh 3\r\na\x00b", False),
        ("spartan-pct-nul", b"h /a%00b 0\r\n", False),
        ("spartan-pct-lf", b"h /nope%0Ainjected 0\r\n", False),
        ("spartan-pct-crlf", b"h /nope%0D%0A2%20text/plain 0\r\n", False),
        ("spartan-two-fields", b"h " + q + b"\r\n", False),
        ("spartan-four-fields", b"h " + q + b" 0 x\r\n", False),
        ("spartan-tls", b"h " + q + b" 0\r\n", True),
        ("spartan-unicode-digit", b"h " + q + b" \xb2\r\n", False),
        ("spartan-utf8-superscript", b"h " + q + b" \xc2\xb2\r\n", False),
        ("spartan-utf8-circled", b"h " + q + b" \xe2\x91\xa0\r\n", False),
        ("spartan-utf8-arabic-digit", b"h " + q + b" \xd9\xa3\r\n", False),
        ("spartan-utf8-path", "h /caf\u00e9 0\r\n".encode("utf-8"), False),
        ("spartan-utf8-host", "h\u00f4st /docs 0\r\n".encode("utf-8"), False),
        ("spartan-rel-path", b"h docs 0\r\n", False),
    ]
    label, data, tls = rng.choice(forms)
    if label in ("http-no-headers-no-fin", "spartan-no-body", "spartan-short-body", "http-no-blank"):
        half_close = rng.random() < 0.5
    if label == "gopher-nothing":
        # a connection that never sends a byte has no request line at all (the property is about
        # request lines); with an immediate FIN it is the empty request
        half_close = True
    return {"data": data.decode("latin-1"), "tls": tls, "half_close": half_close, "label": label, "kind": kind}


def gen(seed, index, tier):
    rng = random.Random(seed)
    n = rng.randrange(4, 17)
    hist = []
    # half of the valid requests of a history address the same object (in different protocols)
    focus = rng.choice(["menu", "menu-root", "menu-root", "zip-listing", "mbox-folder", "gophermap", None,
                        ["menu", "menu-via-symlink"], ["menu", "menu-via-symlink"],
                        ["zip-html-a", "zip-html-b", "zip-web-listing"],
                        ["mbox-message", "mbox-message-1", "mbox-folder", "maildir-message", "maildir-message-2"],
                        ["zip-member", "zip2-member", "zip-listing", "zip2-listing", "zip-cross-1", "zip-cross-2"],
                        ["zip2-member", "zip-cross-1", "zip-member", "zip-cross-2", "zip-cross-3"],
                        ["html", "tal", "gz", "script", "pyg"],
                        ["maildir-new", "maildir-folder", "maildir-message", "maildir-cur", "maildir-message-2"],
                        ["zip3-listing", "zip3-enc", "zip3-d64", "zip3-ok", "zip-gz-member", "zip-member"],
                        ["gophermap", "url-named-file", "menu"],
                        ["gz-upper", "gz-lower", "gz-upper", "gz", "menu"], ["gz-lower", "gz-upper", "menu"],
                        ["tal", "tal-upper", "menu-root"]])
    for i in range(n):
        rq = gen_request(rng, focus)
        nb = len(rq["data"])
        rq["segments"] = sorted(rng.sample(range(1, max(2, nb)), min(rng.choice([0, 0, 0, 1, 2]), max(0, nb - 1))))
        rq["delays"] = [rng.choice([0.0, 0.0, 0.01, 1.0]) for _ in range(len(rq["segments"]) + 1)]
        rq["advance"] = rng.choice([0.0, 0.0, 0.0, 1.0, 100.0, 179.0, 181.0, 100000.0])
        hist.append(rq)
    return {"history": hist, "handlers": rng.choice(["default", "full", "full"]),
            "servertype": rng.choice(["ThreadingTCPServer", "ForkingTCPServer"]),
            "tls_configured": rng.random() < 0.85,
            "world": {"bigsize": rng.choice([100, 4097, 9000]), "nmsg": rng.randrange(2, 4),
                      "ndocs": rng.randrange(1, 6)},
            "sched_seed": rng.randrange(1 << 30)}


def _classify_log(run, n0, cls, resp):
    """Internal-error records logged for this connection."""
    bad = []
    for head, ecls, line in run.exception_records()[n0:]:
        if ecls == "FileNotFound":
            continue
        bad.append((ecls, line))
    return bad


OSERROR_NAMES = set(n for n in dir(__builtins__) if False)


def _is_oserror_class(name):
    import builtins
    import io
    c = getattr(builtins, name, None) or getattr(io, name, None)
    try:
        return isinstance(c, type) and issubclass(c, OSError)
    except TypeError:
        return False


def _payload(rq, tls_configured):
    data = rq["data"].encode("latin-1")
    if tls_configured and not rq["tls"] and data[:1] == b"\x16":
        # a plaintext client whose first byte is 0x16 IS a TLS client for a TLS-capable server;
        # a broken handshake is not a request line, so this shape is only sent to plaintext-only servers
        data = data.lstrip(b"\x16")
    return data


def _one(run, rq, tls_configured):
    data = _payload(rq, tls_configured)
    tls = rq["tls"] and tls_configured
    nlog = len(run.exception_records())
    nhe = len(run.handle_errors)
    npc = len(run.protocol_choices)
    flt = None
    if rq.get("openfault"):
        flt = simfs.Fault("open", OPENFAULT_REL[rq["kind"]], rq["openfault"], nth="all", mode="r")
        run.fs.faults.append(flt)
    c = run.client(data, tls=tls, segments=rq.get("segments"), delays=rq.get("delays"),
                   half_close=rq["half_close"])
    st = run.go()
    if flt is not None:
        run.fs.faults.remove(flt)
        if flt.fired:
            run.count("open_fault_fired")
    return c, st, nlog, nhe, npc


def execute(sc, tape=None):
    harness.load_repo()
    with harness.Scratch("c03") as base:
        root = os.path.join(base, "root")
        world.build(root, c20.make_spec(**sc["world"]))
        refroot = os.path.join(base, "ref")
        tp = Tape(sc["sched_seed"], replay=tape)
        run = harness.SimRun(root, tp, sc["sched_seed"], servertype=sc["servertype"],
                             tls=sc["tls_configured"], handlers=sc["handlers"], timeout=TIMEOUT)
        viol = None
        counters = {}
        resps = []
        recs = []
        shapes = set()
        cache_written = False
        with run:
            run.fs.watch_open = ".cache.pygopherd"
            for i, rq in enumerate(sc["history"]):
                if rq["advance"]:
                    run.advance(rq["advance"])
                    if rq["advance"] > 180 and cache_written:
                        counters["clock_crossed_lifetime"] = counters.get("clock_crossed_lifetime", 0) + 1
                n_open0 = len(run.fs.open_sizes)
                c, st, nlog, nhe, npc = _one(run, rq, sc["tls_configured"])
                resp = bytes(c.s2c)
                resps.append(resp)
                pcs = run.protocol_choices[npc:]
                cls = pcs[-1][1] if pcs else None
                if not rq["label"].startswith("valid-"):
                    counters["malformed_requests"] = counters.get("malformed_requests", 0) + 1
                recs.append((i, rq, c, resp, cls, nlog, nhe, cache_written, st))
                if any(m == "w" for (_, m, _) in run.fs.open_sizes[n_open0:]):
                    cache_written = True
                if cache_written:
                    counters["preceded_by_cache_write"] = counters.get("preceded_by_cache_write", 0) + 1
                if st not in ("idle", "done"):
                    break
            run.shutdown()
            counters = common.merge_counters(counters, common.run_counters(run))
            if counters.get("net_recv_timeout"):
                counters["recv_timeout_used"] = 1
            exc_all = run.exception_records()
            he_all = list(run.handle_errors)
        # ------------------------------------------------------------ oracles
        for (i, rq, c, resp, cls, nlog, nhe, pre_cache, st) in recs:
            sig = {"label": rq["label"]}
            data = rq["data"].encode("latin-1")
            nxt = recs[i + 1][5] if i + 1 < len(recs) else len(exc_all)
            nxt_he = recs[i + 1][6] if i + 1 < len(recs) else len(he_all)
            my_exc = [(e[1], e[2]) for e in exc_all[nlog:nxt] if e[1] != "FileNotFound"]
            my_he = he_all[nhe:nxt_he]
            if st not in ("idle", "done"):
                viol = {"oracle": "bounded-steps", "signature": dict(sig, oracle="bounded-steps", why=str(st)),
                        "detail": "run aborted: %s" % st}
                break
            if not c.server_done():
                viol = {"oracle": "answered-and-closed", "signature": dict(sig, oracle="answered-and-closed"),
                        "detail": "connection %d (%r) never closed by the server" % (i, data[:80])}
                break
            if c.write_after_close:
                viol = {"oracle": "nothing-after-close", "signature": dict(sig, oracle="nothing-after-close"),
                        "detail": "%d writes after the connection was shut down" % c.write_after_close}
                break
            if cls is None and b"\n" not in _payload(rq, sc["tls_configured"]) and not rq["half_close"]:
                # the client never finished its request line and never closed: there is no request line to
                # answer.  What is owed is that the server gives up in bounded time, without an internal error,
                # and does not answer a fragment as if it was the request.
                counters["unfinished_request_line_dropped"] = counters.get("unfinished_request_line_dropped", 0) + 1
                last = c.last_client_byte_at if c.last_client_byte_at is not None else c.closed_at
                if resp:
                    viol = {"oracle": "fragment-not-answered", "signature": dict(sig, oracle="fragment-not-answered"),
                            "detail": "request line %r never completed, yet %r was sent" % (data[:80], resp[:80])}
                    break
                if c.closed_at is not None and last is not None and c.closed_at - last > TIMEOUT + 1.0:
                    viol = {"oracle": "bounded-time", "signature": dict(sig, oracle="bounded-time"),
                            "detail": "closed %.3f s after the last client byte" % (c.closed_at - last)}
                    break
                continue
            if cls is None or (cls or "").startswith("EXC:"):
                viol = {"oracle": "protocol-selected",
                        "signature": dict(sig, oracle="protocol-selected", exc=cls),
                        "detail": "no protocol object for %r (%s); response=%r; handle_error=%r" % (
                            data[:80], cls, resp[:80], my_he[:1])}
                break
            if my_he:
                viol = {"oracle": "no-unhandled-error",
                        "signature": dict(sig, oracle="no-unhandled-error", exc=my_he[0][1], via="handle_error"),
                        "detail": "socketserver.handle_error: %r for %r" % (my_he[0], data[:80])}
                break
            internal = [e for e in my_exc if not (_is_oserror_class(e[0]) and proto.is_error_reply(cls, resp))]
            if internal:
                viol = {"oracle": "no-unhandled-error",
                        "signature": dict(sig, oracle="no-unhandled-error", exc=internal[0][0], cls=cls),
                        "detail": "request %r -> log %r; response=%r" % (data[:80], internal[0][1][:200], resp[:80])}
                break
            last = c.last_client_byte_at if c.last_client_byte_at is not None else c.closed_at
            if c.closed_at is not None and last is not None and c.closed_at - last > TIMEOUT + 1.0:
                viol = {"oracle": "bounded-time", "signature": dict(sig, oracle="bounded-time"),
                        "detail": "closed %.3f s after the last client byte" % (c.closed_at - last)}
                break
            why = proto.validate(cls, data, resp)
            if not why and any(cid == c.id for cid, _ in run.tls_plaintext):
                why = "clear text written beneath the TLS session (a child process was given the raw socket)"
            if why:
                viol = {"oracle": "well-formed", "signature": dict(sig, oracle="well-formed", cls=cls,
                                                                  why=why.split(" (")[0][:60]),
                        "detail": "request %r answered by %s: %s; response=%r" % (data[:80], cls, why, resp[:120])}
                break
        if viol is None:
            # (4) history independence against the reference server, request by request
            world.build(refroot, c20.make_spec(**sc["world"]))
            memo = {}
            deferred = None
            for (i, rq, c, resp, cls, nlog, nhe, pre_cache, st) in recs:
                key = (rq["data"], rq["tls"], rq["half_close"])
                data = rq["data"].encode("latin-1")
                if rq.get("openfault"):
                    continue   # answered under an injected fault: the reference answer is not the yardstick
                if key not in memo:
                    fresh = os.path.join(base, "fresh")
                    shutil.rmtree(fresh, ignore_errors=True)
                    harness.copy_tree(refroot, fresh)
                    out, _ = harness.one_shot(fresh, _payload(rq, sc["tls_configured"]),
                                              tls=rq["tls"] and sc["tls_configured"],
                                              server_tls=sc["tls_configured"],
                                              handlers=sc["handlers"], servertype=sc["servertype"],
                                              seed=sc["sched_seed"], half_close=rq["half_close"],
                                              timeout=TIMEOUT)
                    memo[key] = out
                want = memo[key]
                fam = proto.FAMILY_OF_CLASS.get(cls, "gopher")
                pname = {"gopher": "gopher", "gopherp": "gopher$", "http": "http", "gemini": "gemini",
                         "spartan": "spartan"}[fam]
                a = proto.normalize(pname, resp, dir_only=True)
                b = proto.normalize(pname, want, dir_only=True)
                shapes.add((cls or "-", rq["label"], rq["kind"] if rq["label"].startswith("valid-") else "-", pre_cache))
                if a != b and rq["label"] == "cache-file":
                    # known finding D17 must not hide a different violation later in the history
                    deferred = deferred or {"oracle": "history-independent",
                                            "signature": {"oracle": "history-independent", "label": rq["label"],
                                                          "cls": cls},
                                            "detail": "request #%d %r: after this history got %r, alone got %r" % (
                                                i, data[:80], common.short(a, 120), common.short(b, 120))}
                    continue
                if a != b:
                    viol = {"oracle": "history-independent",
                            "signature": {"oracle": "history-independent", "label": rq["label"], "cls": cls},
                            "detail": "request #%d %r: after this history got %r, alone got %r" % (
                                i, data[:80], common.short(a, 200), common.short(b, 200))}
                    break
            viol = viol or deferred
        nontrivial = counters.get("preceded_by_cache_write") or counters.get("clock_crossed_lifetime")
        shape = sorted(map(list, shapes)) if nontrivial and shapes else None
        res = common.result(viol, None, counters, common.run_digest(run, resps), tp.rec,
                            run.sim.now - sched.EPOCH, run.sim.steps, run.sim.switches)
        res["shapes"] = [list(s) for s in shapes] if nontrivial else []
        return res


def shrink(sc):
    for cand in common.drop_each(sc["history"]):
        if cand:
            yield dict(sc, history=cand)
    for i, rq in enumerate(sc["history"]):
        if rq.get("segments") or any(rq.get("delays", [])) or rq.get("advance"):
            r2 = dict(rq, segments=[], delays=[], advance=0.0)
            yield dict(sc, history=sc["history"][:i] + [r2] + sc["history"][i + 1:])
        if not rq["half_close"]:
            r2 = dict(rq, half_close=True)
            yield dict(sc, history=sc["history"][:i] + [r2] + sc["history"][i + 1:])
    if sc["servertype"] != "ThreadingTCPServer":
        yield dict(sc, servertype="ThreadingTCPServer")
    if sc["handlers"] != "default":
        yield dict(sc, handlers="default")
