"""C07: with the ZIP handler enabled, one damaged *.zip file (end-of-archive
record intact, central directory damaged; or an archive that holds both a
member "a" and a member "a/b") makes the listing of the REAL directory that
contains it fail as a whole."""
import os
import sys
import tempfile
import zipfile

# ---- helpers: drive the real pygopherd code in-process ----
import os
import sys
import warnings

warnings.simplefilter("ignore")
ROOT = os.path.dirname(os.path.dirname(os.path.dirname(os.path.abspath(__file__))))
sys.path.insert(0, ROOT)
os.chdir(ROOT)

from pygopherd import gopherentry, initialization, logger, testutil  # noqa: E402
from pygopherd.handlers import HandlerMultiplexer  # noqa: E402
import pygopherd.handlers.base as hbase  # noqa: E402
import pygopherd.handlers.UMN as UMN  # noqa: E402

# The handler list that conf/pygopherd.conf documents as
# "full Pygopherd featureset including scripts and PYG".
FULL = """[url.HTMLURLHandler, gophermap.BuckGophermapHandler,
    mbox.MaildirFolderHandler, mbox.MaildirMessageHandler,
    %s,
    tal.TALFileHandler, html.HTMLFileTitleHandler,
    mbox.MBoxMessageHandler, mbox.MBoxFolderHandler,
    pyg.PYGHandler, scriptexec.ExecHandler,
    file.CompressedFileHandler, file.FileHandler,
    url.URLTypeRewriter]"""
# The default handler list of conf/pygopherd.conf
DEFAULT = """[url.HTMLURLHandler, gophermap.BuckGophermapHandler,
    mbox.MaildirFolderHandler, mbox.MaildirMessageHandler,
    %s, html.HTMLFileTitleHandler,
    mbox.MBoxMessageHandler, mbox.MBoxFolderHandler,
    file.FileHandler]"""
DIRHANDLERS = ["UMN.UMNDirHandler", "dir.DirHandler"]


def make_config(root, handlers=None):
    config = testutil.get_config()  # conf/pygopherd.conf
    config.set("pygopherd", "root", root)
    if handlers:
        config.set("handlers.HandlerMultiplexer", "handlers", handlers)
    config.set("logger", "logmethod", "none")
    logger.init(config)
    initialization.init_mimetypes(config)
    # forget what an earlier configuration left in module globals
    HandlerMultiplexer.handlers = None
    HandlerMultiplexer.rootpath = None
    hbase.rootpath = None
    UMN.extstrip = None
    gopherentry.mapping = None
    gopherentry.eaexts = None
    return config


def request(config, line):
    """Send one request line through the real protocol/handler code."""
    proto = testutil.get_testing_protocol(line, config=config)
    proto.handle()
    return proto.wfile.getvalue()


def listing(config, selector):
    """Selectors of the (non-info) items of the gopher menu of selector, or
    the exception that the request died with."""
    try:
        raw = request(config, selector + "\r\n").decode(errors="surrogateescape")
    except Exception as e:  # the server would drop the connection
        return e
    out = []
    for line in raw.split("\r\n"):
        if not line or line[0] == "i":
            continue
        fields = line.split("\t")
        if line[0] == "3" and len(fields) > 2 and fields[2] == "error.host":
            return RuntimeError("error reply: " + line)
        out.append(fields[1])
    return out
# ---- end of helpers ----


def damaged(path):
    with zipfile.ZipFile(path, "w") as z:
        z.writestr("inside.txt", "hi")
    data = open(path, "rb").read()
    i = data.rfind(b"PK\x01\x02")  # central directory file header
    with open(path, "wb") as fp:
        fp.write(data[:i] + b"XX" + data[i + 2:])
    assert zipfile.is_zipfile(path)


def clashing(path):
    with zipfile.ZipFile(path, "w") as z:
        z.writestr("a", "a file")
        z.writestr("a/b", "a file below a name that is a file")


bad = 0
for dirhandler in DIRHANDLERS:
    for label, maker in (("damaged central directory", damaged), ("member a and member a/b", clashing)):
        root = tempfile.mkdtemp()
        with open(os.path.join(root, "a.txt"), "w") as fp:
            fp.write("hello\n")
        with zipfile.ZipFile(os.path.join(root, "good.zip"), "w") as z:
            z.writestr("inside.txt", "hi")
        maker(os.path.join(root, "odd.zip"))
        handlers = (DEFAULT % dirhandler).replace("[", "[ZIP.ZIPHandler, ", 1)
        config = make_config(root, handlers)
        config.set("handlers.ZIP.ZIPHandler", "enabled", "true")

        expected = ["/a.txt", "/good.zip", "/odd.zip"]
        got = listing(config, "/")
        print("%s, odd.zip = %s: listing of / = %r" % (dirhandler, label, got))
        if isinstance(got, Exception) or sorted(got) != expected:
            print("  VIOLATION: expected exactly once each: %r" % expected)
            bad += 1
sys.exit(1 if bad else 0)
