#!/usr/bin/env python
"""
C02 hunt, finding 4: WAP auto-detection ("lists WML in Accept, and has an
x-wap-profile or x-up-devcap-max-pdu header", pygopherd/protocols/wap.py)
depends on the spelling of the header block rather than on what it says:

  * "Accept:text/vnd.wap.wml" (no space after the colon -- optional in HTTP,
    and the form the project's own tests use) is not detected, while
    "Accept: text/vnd.wap.wml" is;
  * with two Accept header lines only the last one counts, so swapping two
    lines flips the protocol;
  * an Accept header that lists only text/vnd.wap.wmlscript (or
    text/vndXwapXwml) -- i.e. does NOT list WML -- is detected as WAP.

Run as:  cd /tmp/wt4-C02 && /venv/bin/python HUNT/4/demo.py
Exits 0 if, for the same first line, header blocks that say the same thing
are answered by the same protocol, non-zero otherwise.
"""
import io
import os
import shutil
import sys
import tempfile
import warnings

ROOT = os.path.dirname(os.path.dirname(os.path.dirname(os.path.abspath(__file__))))
sys.path.insert(0, ROOT)
os.chdir(ROOT)
warnings.simplefilter("ignore")

from pygopherd import initialization, testutil  # noqa: E402
from pygopherd.protocols import ProtocolMultiplexer  # noqa: E402


class KeepOpen(io.BytesIO):
    def close(self):  # keep the bytes readable after finish()
        pass


def make_config(docroot):
    config = initialization.init_config("conf/pygopherd.conf")  # shipped config
    config.set("pygopherd", "root", docroot)
    config.set("pygopherd", "port", "0")
    config.set("pygopherd", "servertype", "ThreadingTCPServer")
    config.set("logger", "logmethod", "none")
    initialization.init_logger(config, "conf/pygopherd.conf")
    initialization.init_exceptions(config)
    initialization.init_mimetypes(config)
    return config


def serve(config, server, raw, tls=False):
    """Feed the bytes `raw` to the real GopherRequestHandler.handle();
    return (name of the protocol class that answered, response bytes)."""
    rfile, wfile = KeepOpen(raw), KeepOpen()
    cls = testutil.MockSSLRequest if tls else testutil.MockRequest
    handler = testutil.MockRequestHandler(
        cls(rfile, wfile), ("10.77.77.77", "7777"), server
    )
    answered = []
    real = ProtocolMultiplexer.getProtocol

    def spy(*a, **kw):
        p = real(*a, **kw)
        answered.append(p)
        return p

    ProtocolMultiplexer.getProtocol = spy
    try:
        handler.handle()
    finally:
        ProtocolMultiplexer.getProtocol = real
    return answered[0], wfile.getvalue()



LINE = b"GET / HTTP/1.0\r\n"
PROFILE = b"X-Wap-Profile: http://example.org/phone.rdf\r\n"

# Each group: header blocks that carry the same information (RFC 7230 3.2:
# "field-name ':' OWS field-value OWS"; several fields of the same name are
# equivalent to one comma-joined field; the order of fields with the same
# name is the order of the list, and a list of media ranges in Accept is
# unordered).  All members of a group must be answered by the same protocol.
GROUPS = [
    (
        "Accept lists text/vnd.wap.wml + X-Wap-Profile (spacing after ':')",
        [
            b"Accept: text/vnd.wap.wml\r\n" + PROFILE,
            b"Accept:text/vnd.wap.wml\r\n" + PROFILE,
            b"Accept:\ttext/vnd.wap.wml\r\n" + PROFILE,
            b"Accept:text/vnd.wap.wml, text/html\r\n" + PROFILE,
            b"Accept: text/html,text/vnd.wap.wml\r\n" + PROFILE,
        ],
    ),
    (
        "Accept given as two header lines, in either order, or as one line",
        [
            b"Accept: text/html, text/vnd.wap.wml\r\n" + PROFILE,
            b"Accept: text/html\r\nAccept: text/vnd.wap.wml\r\n" + PROFILE,
            b"Accept: text/vnd.wap.wml\r\nAccept: text/html\r\n" + PROFILE,
        ],
    ),
    (
        "Accept does NOT list text/vnd.wap.wml (X-Wap-Profile present)",
        [
            b"Accept: text/html\r\n" + PROFILE,
            b"Accept: text/html, text/vnd.wap.wmlscript\r\n" + PROFILE,
            b"Accept: text/html, text/vndXwapXwml\r\n" + PROFILE,
        ],
    ),
]


def main():
    docroot = tempfile.mkdtemp(prefix="c02-4-")
    try:
        with open(os.path.join(docroot, "hello.txt"), "w") as fp:
            fp.write("HELLO\n")
        config = make_config(docroot)
        server = initialization.get_server(config)
        server.server_close()

        failures = []
        for title, blocks in GROUPS:
            print(title)
            answers = []
            for block in blocks:
                proto, out = serve(config, server, LINE + block + b"\r\n")
                ctype = [l for l in out.split(b"\r\n") if l.startswith(b"Content-Type")]
                answers.append(type(proto).__name__)
                print("   %-75r -> %-13s %r" % (block, answers[-1], ctype))
            if len(set(answers)) != 1:
                failures.append((title, list(zip(blocks, answers))))

        if failures:
            print()
            print("PROPERTY C02 VIOLATED: for the same first line %r, header blocks that" % LINE)
            print("say the same thing were answered by different protocols:")
            for title, pairs in failures:
                print(" *", title)
                for block, name in pairs:
                    print("     %-13s <- %r" % (name, block))
            return 1
        print("ok")
        return 0
    finally:
        shutil.rmtree(docroot, ignore_errors=True)


if __name__ == "__main__":
    sys.exit(main())
