#!/venv/bin/python
"""C11 -- a ZIP index cache file cut off at any byte must be harmless.

The server keeps an index of every ZIP archive it serves in a shelve data base
called ".cache.pygopherd.zip3.<archive>" next to the archive.  This program

  1. builds a document root with one archive, a.zip;
  2. lets a file exist under the cache's own name (here: the 0-byte prefix of
     such a cache; an index left behind by a Python whose dbm has a
     single-file back end has the same effect) -- from then on the server
     opens the cache it wrote itself instead of rebuilding it;
  3. lets the server write its cache by asking for the archive;
  4. for every file the server wrote, for every prefix length 0..size (and a
     zero-filled file of full length): puts that damaged file in place and
     asks for the listings of the archive again.

The property says every one of these requests returns the complete listing.
Exit status 0 if so, 1 otherwise.
"""
import glob
import os
import sys
import tempfile
import zipfile
from io import BytesIO

ROOT = os.path.dirname(os.path.dirname(os.path.dirname(os.path.abspath(__file__))))
sys.path.insert(0, ROOT)
os.chdir(ROOT)

import warnings

warnings.simplefilter("ignore")

from pygopherd import GopherExceptions, initialization, logger, testutil  # noqa

docroot = tempfile.mkdtemp(prefix="c11zip")
with zipfile.ZipFile(docroot + "/a.zip", "w") as z:
    z.writestr("one.txt", "1\n")
    z.writestr("two.txt", "2\n")
    z.writestr("d/three.txt", "3\n")
    z.writestr("d/e/four.txt", "4\n")
# the archive is old; whatever carries the cache's name is newer
os.utime(docroot + "/a.zip", (1000000000, 1000000000))

config = initialization.init_config("conf/pygopherd.conf")
config.set("pygopherd", "root", docroot)
config.set("logger", "logmethod", "none")
config.set(
    "handlers.HandlerMultiplexer",
    "handlers",
    "[ZIP.ZIPHandler, UMN.UMNDirHandler, file.FileHandler]",
)
config.set("handlers.ZIP.ZIPHandler", "enabled", "true")
logger.init(config)
GopherExceptions.init(False)
initialization.init_mimetypes(config)
for attempt in range(20):
    try:
        server = testutil.get_testing_server(config)
        break
    except OSError:
        import time

        time.sleep(0.5)


class Wfile(BytesIO):
    def close(self):
        pass


def ask(line: bytes) -> bytes:
    rfile, wfile = BytesIO(line), Wfile()
    h = testutil.MockRequestHandler(
        testutil.MockRequest(rfile, wfile), ("10.0.0.1", "7777"), server
    )
    h.rfile, h.wfile = rfile, wfile
    try:
        h.handle()
    except Exception as e:  # the real server would log it and close
        return b"<<exception %r>>" % repr(e).encode()
    return wfile.getvalue()


REQUESTS = [b"/a.zip\r\n", b"/a.zip/d\r\n", b"/a.zip/d/e\r\n"]

# What the listings are: the answers of a server that has no cache to read
# (checked against the archive's contents).
expected = [ask(r) for r in REQUESTS]
names = [
    [line.split(b"\t")[1] for line in x.split(b"\r\n") if line] for x in expected
]
assert names == [
    [b"/a.zip/d", b"/a.zip/one.txt", b"/a.zip/two.txt"],
    [b"/a.zip/d/e", b"/a.zip/d/three.txt"],
    [b"/a.zip/d/e/four.txt"],
], expected

# 2. something carries the cache's own name
own = docroot + "/.cache.pygopherd.zip3.a.zip"
open(own, "wb").close()

# 3. the server writes (and from the second request on reads) its cache
for i in range(3):
    got = [ask(r) for r in REQUESTS]
    assert got == expected, ("intact cache", got)

written = {
    p: open(p, "rb").read()
    for p in sorted(glob.glob(docroot + "/.cache*"))
    if os.path.getsize(p) > 0
}
print("cache files the server wrote:")
for p, data in written.items():
    print("   %-40s %5d bytes" % (os.path.basename(p), len(data)))


def restore():
    for p, data in written.items():
        with open(p, "wb") as fp:
            fp.write(data)


# 4. every prefix of every cache file
failures = []
tried = 0
for p, data in written.items():
    cuts = [("first %d bytes" % n, data[:n]) for n in range(len(data) + 1)]
    cuts.append(("zero-filled, full length", b"\0" * len(data)))
    for label, content in cuts:
        restore()
        with open(p, "wb") as fp:
            fp.write(content)
        tried += 1
        got = [ask(r) for r in REQUESTS]
        again = [ask(r) for r in REQUESTS]  # ... and it does not heal either
        if got != expected:
            failures.append((os.path.basename(p), label, got, again))

print("%d damaged cache files tried, %d gave a wrong answer" % (tried, len(failures)))
shown = set()
for fname, label, got, again in failures:
    kind = (fname, tuple(g == e for g, e in zip(got, expected)), got[0][:20])
    if kind in shown:
        continue
    shown.add(kind)
    print()
    print("%s cut to its %s:" % (fname, label))
    for r, g, e, a in zip(REQUESTS, got, expected, again):
        if g != e:
            print("   request %r" % r)
            print("      expected %r" % e)
            print("      got      %r" % g)
            print("      asked again: %s" % ("still wrong" if a != e else "right"))
    if len(shown) >= 6:
        break

if failures:
    print()
    print("FAIL: C11 violated -- a cut-off ZIP index cache gives errors, empty")
    print("replies or partial listings.")
    sys.exit(1)
print("OK")
sys.exit(0)
