"""C02: the protocol that answers must be a function of the first request line
(and of TLS-or-not).  On the current code it also depends on how the bytes of
that line are spread over time: pygopherd's `timeout` option (shipped: 60 s) is
applied with SO_RCVTIMEO, so when the client pauses longer than the timeout
inside its first line, rfile.readline() silently returns the *prefix* received
so far, and that prefix is dispatched as if it were the complete request line.

The check: the same first line is sent (a) in one piece and (b) with one pause
longer than the configured timeout in the middle of the line.  If the property
holds, connection (b) is either answered exactly like (a) or not answered at
all (dropped on timeout).  Likewise a connection that never sends anything
must not be answered by any protocol.
"""
import os
import socket
import sys
import threading
import time
import warnings

ROOT = os.path.abspath(os.path.join(os.path.dirname(__file__), "..", ".."))
sys.path.insert(0, ROOT)
os.chdir(ROOT)
warnings.simplefilter("ignore")

from pygopherd import initialization, logger, testutil  # noqa: E402
from pygopherd.protocols import ProtocolMultiplexer  # noqa: E402
from pygopherd.server import GopherRequestHandler, ThreadingTCPServer  # noqa: E402

TIMEOUT = 1  # seconds; the shipped conf/pygopherd.conf says 60
PAUSE = 2.5

config = testutil.get_config()  # conf/pygopherd.conf, root = testdata
config.set("pygopherd", "timeout", str(TIMEOUT))
config.set("logger", "logmethod", "none")
logger.init(config)
initialization.init_mimetypes(config)

# Observe (do not alter) which protocol claims which line.
claimed = []
_orig = ProtocolMultiplexer.getProtocol


def spy(request, *a, **k):
    p = _orig(request, *a, **k)
    claimed.append((request, type(p).__name__))
    return p


ProtocolMultiplexer.getProtocol = spy

server = ThreadingTCPServer(config, ("127.0.0.1", 0), GopherRequestHandler)
threading.Thread(target=server.serve_forever, daemon=True).start()


def talk(chunks):
    """Send the chunks with PAUSE between them; return (reply, protocol)."""
    n = len(claimed)
    s = socket.create_connection(server.server_address)
    for i, chunk in enumerate(chunks):
        if i:
            time.sleep(PAUSE)
        try:
            s.sendall(chunk)
        except OSError:
            break  # server already dropped us: fine
    s.settimeout(TIMEOUT + PAUSE + 3)
    reply = b""
    try:
        while True:
            data = s.recv(65536)
            if not data:
                break
            reply += data
    except OSError:
        pass
    s.close()
    time.sleep(0.1)
    who = claimed[n:][0] if claimed[n:] else (None, None)
    return reply, who


failures = []

cases = [
    # (description, whole first line (+ header block), split point)
    ("Gopher+ request", b"/README\t+\r\n", 7),
    ("HTTP request", b"GET /README HTTP/1.0\r\n\r\n", 14),
    ("Spartan request", b"localhost /README 0\r\n", 17),
    # first line complete; the pause falls inside the header block that WAP
    # auto-detection reads
    (
        "WAP request (auto-detected from its headers)",
        b"GET /README HTTP/1.0\r\nAccept: text/html, text/vnd.wap.wml\r\n"
        b"X-Wap-Profile: http://example.invalid/p.xml\r\n\r\n",
        61,
    ),
]
for what, line, cut in cases:
    whole_reply, whole_who = talk([line])
    split_reply, split_who = talk([line[:cut], line[cut:]])
    print(f"{what}: {line!r}")
    print(f"   sent in one piece      -> {whole_who[1]}: {whole_reply[:40]!r}")
    print(
        f"   pause after {line[:cut]!r} -> {split_who[1]} "
        f"(given line {split_who[0]!r}): {split_reply[:60]!r}"
    )
    if split_reply and split_reply != whole_reply:
        failures.append(
            f"{what}: same request, answered by {whole_who[1]} when sent at "
            f"once but by {split_who[1]} (dispatched on {split_who[0]!r}) when "
            f"the client paused {PAUSE}s > timeout {TIMEOUT}s before its request was complete"
        )

# A client that connects and sends nothing at all has no first line.
n = len(claimed)
s = socket.create_connection(server.server_address)
s.settimeout(TIMEOUT + 4)
try:
    idle_reply = s.recv(65536)
except OSError:
    idle_reply = b""
s.close()
time.sleep(0.1)
print(f"silent client: claimed by {claimed[n:]}, got {idle_reply[:60]!r}")
if idle_reply:
    failures.append(
        "a client that sent no byte at all was answered (by "
        f"{claimed[n:][0][1] if claimed[n:] else '?'}) with {len(idle_reply)} bytes"
    )

server.shutdown()
server.server_close()

if failures:
    print("\nC02 VIOLATED:")
    for f in failures:
        print(" -", f)
    sys.exit(1)
print("OK: the answering protocol depends only on the first line")
sys.exit(0)
