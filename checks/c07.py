"""C07 - a listing is exactly the visible entries, once each, in a stable order.

The order in which the OS enumerates a directory is nondeterminism at the file
seam; the simulator owns it.  Per run: a generated directory (names on both
sides of every alternative of the shipped ignore pattern, dot-files, several
link files, .cap overrides incl. Type=X, sub-directories), then the same
listing request under K seeded permutations of listdir (all permutations for
small directories).

Oracles: (1) all K responses are byte-identical; (2) the local entries are
exactly the names that are neither dot-files, nor matched by
re.search(ignorepatt, selectorbase + "/" + name), nor hidden by metadata, each
once, plus exactly the link-file additions; (3) every name kept out of the
listing is still answered with success when requested by exact selector.
"""
import itertools
import os
import random
import re

from simkit import harness, proto, sched, world, fs as simfs
from simkit.tape import Tape
from . import common

PROPERTY = "C07"
LEVEL = "exploration"
RUNS = {"quick": 3000, "thorough": 60000}
BATCH = 20
RULE = ("seeded directories (3-14 entries from a pool built around every alternative of the shipped ignorepatt, "
        "dot-files, 0-3 link files, .cap overrides) x directory handler x protocol, each listed under K "
        "seeded readdir permutations (all n! for n<=4); non-trivial = at least two different enumeration "
        "orders were actually served; distinct = distinct (handler, name-class multiset, link-file shape) tuples")
REAL = common.REAL
STUB = common.STUB
ASSUMPTIONS = [
    "readdir order is modelled as an arbitrary permutation per (directory, epoch); the harness bumps the epoch "
    "between the K requests",
    "the visible-set model applies the configured ignorepatt with re.search to selectorbase + '/' + name, "
    "as the property states",
]
PROBES_REQUIRED = ["orders_differed", "ignored_name_present", "hidden_by_metadata", "two_link_files",
                   "excluded_fetched"]

# names on both sides of each alternative of the shipped ignorepatt
MATCH_NAMES = ["lost+found", "lib", "bin", "etc", "dev", "notes~", ".cache.x", ".forward", ".message",
               ".hushlogin", ".kermrc", ".notar", ".where", "veronica.ctl", "veronicaXctl", "robots.txt",
               "nohup.out", "paper.keyboards", "form.ask", "form.askme", "model.3d", "xcap", "a~"]
NEAR_NAMES = ["lost+foundx", "libx", "xlib", "bin2", "etcetera", "devel", "no~tes", "robots.txt2",
              "nohup.out.1", "mygophermap", "gophermap.txt", "paper.keyboardsx", "model.3dx", "capx",
              "veronica.ctl.old", "xforward",
              # the alternatives of the pattern in another letter case: not matched
              "Lib", "BIN", "Etc", "DEV", "Robots.txt", "NOHUP.OUT", "report.ABSTRACT", "slides.3D",
              "Lost+Found", "GopherMap", "Veronica.ctl", "form.ASK",
              # names that are not in Unicode composed form (and a composed twin)
              "cafe\u0301.txt", "caf\u00e9.txt", "A\u030angstrom", "\u1100\u1161.txt"]
PLAIN_NAMES = ["alpha.txt", "beta.html", "gamma", "delta.txt", "Zeta", "eta.jpg", "10", "9", "B.txt", "a.txt", "1", "2"]
DOT_NAMES = [".hidden", ".profile", ".x", ".private", ".d"]
DOT_DIRS = [".private", ".d"]
LINK_FILES = [".names", ".links", ".Links", ".extra"]
# names that no menu line can carry (TAB / CR / LF): they may be left out, but must never add foreign items
CTL_NAMES = ["tab\tname.txt", "x\r\n1Evil\t\tevil.example\t70\r\n0y", "cr\rname", "lf\nname.html"]
# names that contain the separators of the virtual-argument syntax, next to a mail folder of the same stem
SEP_NAMES = ["box|", "box?", "box|x", "other?q"]
HTML_BODIES = ["<title>%s</title>", "<html><head><title>%s</title></head></html>", "<html>no title: %s</html>",
               "<![ endif]><title>%s</title>", "<html><![foo[ <title>%s</title>", "<!DOCTYPE html>\n<title>%s\n</title>",
               "<title>%s", "<!-- <title>c</title> --><TITLE>%s</TITLE>", "<![CDATA[x]]><title>%s</title>"]
DOT_BODIES = ["", "# comment only\n", "Port=auto\n", "Type=\n", "Numb=x\n", "just some text\n",
              "KEY=value\nPort=auto\n", "#c\nType=\nName=\n"]


_ZEROS_TAIL = {"b64": __import__("base64").b64encode(b"\0" * 300 + b"PK\x05\x06" + b"\0" * 18).decode()}
FULL_EXTRAS = [
    ("why", {"k": "file", "d": "#!/bin/sh\necho because $*\n", "x": True}),
    ("notes.tal", {"k": "file", "d": "<html><body tal:content=\"selector\">x</body></html>\n"}),
    ("b.html.tal", {"k": "file", "d": "<html><head><title>T</title></head><body>b</body></html>\n"}),
    ("broken.pyg", {"k": "file", "d": "def (:\n", "x": True}),
    ("nomain.pyg", {"k": "file", "d": "x = 1\n", "x": True}),
    ("raises.pyg", {"k": "file", "d": "raise RuntimeError('at import')\n", "x": True}),
    ("cut.zip", {"k": "file", "d": _ZEROS_TAIL}),
    ("odd.zip", {"k": "zip", "members": [["a", "a file\n"], ["a/b", "below a file\n"]]}),
    ("good.zip", {"k": "zip", "members": [["a.txt", "zip a\n"], ["d/", ""], ["d/b.txt", "zip b\n"]]}),
    ("t.txt.gz", {"k": "file", "d": {"b64": __import__("base64").b64encode(
        __import__("gzip").compress(b"compressed\n", mtime=0)).decode()}}),
]


def _ctl(nm):
    return any(c in nm for c in "\t\r\n")


def gen(seed, index, tier):
    rng = random.Random(seed)
    # (the last one: a directory whose selector looks like a mailbox message selector)
    dname = rng.choice(["docs", "docs", "", "docs", "", "arch?/MBOX-MESSAGE"])
    pre = (dname + "/") if dname else ""
    n = rng.randrange(3, 13)
    names = set()
    pools = [PLAIN_NAMES, PLAIN_NAMES, MATCH_NAMES, NEAR_NAMES, DOT_NAMES]
    while len(names) < n:
        names.add(rng.choice(rng.choice(pools)))
    if rng.random() < 0.12:
        names.add(rng.choice(CTL_NAMES))
    mailbox = None
    if rng.random() < 0.12:
        mailbox = rng.choice(["mbox", "maildir"])
        names.add("box")
        for nm in rng.sample(SEP_NAMES, rng.choice([1, 2, 3])):
            names.add(nm)
    handlers = rng.choice(["default", "default", "default", "plaindir", "full"])
    full_extra = {}
    if handlers == "full":
        # entries that the handlers of the documented "full featureset" list look into while their
        # directory is being listed
        for nm, ent in rng.sample(FULL_EXTRAS, rng.randrange(1, 5)):
            full_extra[nm] = ent
            names.add(nm)
        if "why" in full_extra:
            for sib in rng.sample(["why?.txt", "why|notes", "why?"], rng.choice([1, 2])):
                names.add(sib)
    names = sorted(names)
    spec = ([{"p": dname, "k": "dir"}] if dname else [])
    kinds = {}
    for nm in names:
        if nm in full_extra:
            spec.append(dict(full_extra[nm], p=pre + nm))
            kinds[nm] = "special"
        elif nm == "box" and mailbox:
            spec.append({"p": pre + nm, "k": mailbox, "n": 2})
            kinds[nm] = mailbox
        elif nm in DOT_DIRS or (rng.random() < 0.2 and not nm.startswith(".") and "." not in nm
                                and "~" not in nm and nm not in SEP_NAMES and not _ctl(nm)):
            spec.append({"p": pre + nm, "k": "dir"})
            spec.append({"p": pre + nm + "/inner.txt", "k": "file", "d": "inner\n"})
            kinds[nm] = "dir"
        else:
            if nm.startswith(".") and nm not in (".cache.x",):
                # a dot-file is read as a UMN link file: give it harmless or empty content
                d = rng.choice(DOT_BODIES) if rng.random() < 0.5 else rng.choice(["", "# comment only\n"])
            elif nm.endswith(".html"):
                d = (rng.choice(HTML_BODIES) if rng.random() < 0.5 else "<title>%s</title>") % nm.strip()
            else:
                d = "content of %s\n" % nm
            spec.append({"p": pre + nm, "k": "file", "d": d})
            kinds[nm] = "file"
    plain = [nm for nm in names if not nm.startswith(".")]
    # sidecar abstract
    if plain and rng.random() < 0.3:
        nm = rng.choice(plain)
        spec.append({"p": pre + nm + ".abstract", "k": "file", "d": "About %s\n" % nm})
    # metadata: every name gets at most ONE treatment, and only names that are
    # visible by themselves are targeted (a link block for an ignored or hidden
    # file would legitimately add it back, which is C08's business)
    targets = [nm for nm in plain if nm in PLAIN_NAMES or nm in NEAR_NAMES]
    rng.shuffle(targets)
    nlf = rng.choice([0, 1, 1, 2, 2, 3])
    lfnames = rng.sample(LINK_FILES, nlf)
    blocks = {lf: [] for lf in lfnames}
    additions = []
    hidden = set()
    caphidden = set()
    comment_sep = False
    addn = 0
    for nm in targets:
        r = rng.random()
        # a .cap file may end in blank lines or carry further blocks: only its first block counts
        captail = rng.choice(["", "", "\n", "\n\n", "\nName=A second block\nNumb=9\n", "\n# trailing comment\n"])
        if r < 0.12:
            spec.append({"p": pre + ".cap/" + nm, "k": "file", "d": rng.choice(["Type=X\n", "Type=X", "Type=-\n"]) + captail})
            caphidden.add(nm)
        elif r < 0.25:
            spec.append({"p": pre + ".cap/" + nm, "k": "file",
                         "d": "Name=Capped %s\nNumb=%d\n" % (nm, rng.randrange(0, 5)) + captail})
        elif r < 0.37 and lfnames:
            # (a directory may be addressed with a trailing slash)
            sl = "/" if (kinds.get(nm) == "dir" and rng.random() < 0.5) else ""
            blocks[rng.choice(lfnames)].append("Path=./%s%s\nType=X\n" % (nm, sl))
            hidden.add(nm)
            if rng.random() < 0.5:
                # the same entry is also given a title by another block (before or after the
                # hiding one, in the same or another link file): it stays hidden
                blocks[rng.choice(lfnames)].append("Path=./%s\nName=Titled but hidden %d\n"
                                                   % (nm, rng.randrange(100)))
        elif r < 0.62 and lfnames:
            # override, sometimes from two different link files (same entry)
            for lf in rng.sample(lfnames, min(len(lfnames), rng.choice([1, 1, 2]))):
                sl = "/" if (kinds.get(nm) == "dir" and rng.random() < 0.5) else ""
                blocks[lf].append("Path=./%s%s\nName=Renamed %d\nNumb=%d\n"
                                  % (nm, sl, rng.randrange(100), rng.randrange(0, 4)))
    for lf in lfnames:
        for _ in range(rng.randrange(0, 3)):
            addn += 1
            title = "Remote" if rng.random() < 0.4 else "Remote %d" % addn
            path = "/remote/%d" % addn
            blocks[lf].append("Name=%s\nType=1\nPath=%s\nHost=other.example.org\nPort=70\n%s"
                              % (title, path, ("Numb=%d\n" % rng.randrange(0, 3)) if rng.random() < 0.5 else ""))
            additions.append(path)
        rng.shuffle(blocks[lf])
        # blocks are separated by a blank line or, as in UMN gopherd, by a comment line after the block's Path=
        body = ""
        for bi_, blk in enumerate(blocks[lf]):
            if bi_:
                body += rng.choice(["\n", "\n", "# next entry\n", "#\n", "\n# and another\n"])
                if body.endswith("entry\n") or body.endswith("#\n"):
                    comment_sep = True
            body += blk
        spec.append({"p": pre + lf, "k": "file", "d": body})
    links = list(lfnames)
    swap = None
    if rng.random() < 0.2 and handlers != "plaindir":
        # a link file that is replaced, after a first listing, by content of the same length with the same
        # modification time (cp -p, rsync -t, an edit within the same second): what counts is what it says now
        a, b = rng.sample(["swapA.txt", "swapB.txt", "swapC.txt"], 2)
        for nm in ("swapA.txt", "swapB.txt", "swapC.txt"):
            spec.append({"p": pre + nm, "k": "file", "d": "content of %s\n" % nm})
            kinds[nm] = "file"
        names = sorted(set(names) | {"swapA.txt", "swapB.txt", "swapC.txt"})
        how = rng.choice(["linkfile", "linkfile", "cap"])
        if how == "linkfile":
            swap = {"p": pre + ".zswap", "before": "Path=./%s\nType=X\n" % a, "after": "Path=./%s\nType=X\n" % b}
            spec.append({"p": pre + ".zswap", "k": "file", "d": swap["before"]})
            hidden.add(b)
            links.append(".zswap")
        else:
            swap = {"p": pre + ".cap/" + b, "before": "Name=Shown\n", "after": "Type=X    \n"}
            spec.append({"p": pre + ".cap/" + b, "k": "file", "d": swap["before"]})
            caphidden.add(b)
    return {
        "spec": spec, "dir": dname, "names": names, "kinds": kinds,
        "linkfiles": links, "additions": additions,
        "hidden_link": sorted(hidden), "hidden_cap": sorted(caphidden),
        "handlers": handlers,
        "proto": rng.choice(["gopher", "gopher", "http", "gopher$", "gemini", "spartan", "wap", "gopher+"]),
        "K": 4 if tier == "quick" else 10,
        "swap": swap, "comment_sep": comment_sep,
        "servertype": rng.choice(["ThreadingTCPServer", "ForkingTCPServer"]),
        "sched_seed": rng.randrange(1 << 30),
    }


def _dir_names(root, d):
    p = os.path.join(root, d) if d else root
    return sorted(simfs.real_listdir(p))


def execute(sc, tape=None):
    harness.load_repo()
    conf = {("handlers.dir.DirHandler", "cachetime"): "0"}
    with harness.Scratch("c07") as base:
        root = os.path.join(base, "root")
        world.build(root, sc["spec"])
        sel = common.selector_of(sc["dir"])
        selbase = "" if sel == "/" else sel
        req, tls = proto.make_request(sc["proto"], sel)
        tp = Tape(sc["sched_seed"], replay=tape)
        run = harness.SimRun(root, tp, sc["sched_seed"], servertype=sc["servertype"], tls=True,
                             handlers=sc["handlers"], conf=conf)
        viol = None
        counters = {}
        resps = []
        orders = []
        rel = sc["dir"]
        with run:
            ignorepatt = run.config.get("handlers.dir.DirHandler", "ignorepatt")
            present = [n for n in _dir_names(root, sc["dir"])]
            nperm = None
            if len(present) <= 4:
                perms = list(itertools.permutations(sorted(present)))
                nperm = len(perms)
            K = nperm if nperm else sc["K"]

            def hook(r, names):
                if r == rel:
                    orders.append(tuple(names))

            run.fs.on_listdir = hook
            if sc.get("comment_sep"):
                counters["blocks_separated_by_comment"] = 1
            if sc.get("swap"):
                # first listing with the old content, then the replacement (same length, same mtime)
                sw = sc["swap"]
                c = run.client(req, tls=tls)
                run.go()
                swp = os.path.join(root, sw["p"])
                st_ = simfs.real_stat(swp)
                assert len(sw["before"]) == len(sw["after"])
                simfs.write_file(swp, sw["after"].encode(), st_.st_mtime)
                del orders[:]
                counters["link_file_replaced_same_size_same_mtime"] = 1
            for j in range(K):
                run.fs.epoch = j
                if nperm:
                    run.fs.forced_order = {rel: [os.fsencode(x) for x in perms[j]]}
                c = run.client(req, tls=tls)
                run.go()
                resps.append(proto.normalize(sc["proto"], bytes(c.s2c)))
                run.advance(1.0)
            run.fs.forced_order = {}
            if len(set(orders)) > 1:
                counters["orders_differed"] = 1
            # (1) identical under every enumeration order
            if any(r != resps[0] for r in resps[1:]):
                j = [i for i, r in enumerate(resps) if r != resps[0]][0]
                e0 = proto.parse_listing(sc["proto"], resps[0]) or []
                ej = proto.parse_listing(sc["proto"], resps[j]) or []
                cls = "order" if sorted(e0) == sorted(ej) else "content"
                viol = {"oracle": "same-under-every-readdir-order",
                        "signature": {"oracle": "same-under-every-readdir-order", "differs_in": cls,
                                      "handlers": sc["handlers"],
                                      "linkfiles": min(2, len(sc["linkfiles"]))},
                        "detail": "orders %r vs %r -> %r vs %r" % (orders[0], orders[min(j, len(orders) - 1)],
                                                                 common.short(resps[0], 200), common.short(resps[j], 200))}
            # (2) exactly the visible entries
            ents = proto.parse_listing(sc["proto"], resps[0])
            if viol is None and ents is None:
                viol = {"oracle": "listing-succeeds", "signature": {"oracle": "listing-succeeds"},
                        "detail": common.short(resps[0], 300)}
            umn = sc["handlers"] != "plaindir"
            if viol is None:
                visible = []
                excluded = []
                for nm in present:
                    if nm.startswith(".cache.pygopherd"):
                        continue
                    if _ctl(nm):
                        # no menu line can carry this name: it may be left out (the selector filter refuses
                        # it), but then nothing else may appear in its place - checked through the targets
                        counters["unrepresentable_name_present"] = 1
                        continue
                    ign = re.search(ignorepatt, selbase + "/" + nm) is not None
                    dot = nm.startswith(".")
                    hid = umn and (nm in sc["hidden_link"] or nm in sc["hidden_cap"])
                    if ign:
                        counters["ignored_name_present"] = 1
                    if hid:
                        counters["hidden_by_metadata"] = 1
                    if ign or dot or hid:
                        excluded.append(nm)
                    else:
                        visible.append(nm)
                if len(sc["linkfiles"]) >= 2:
                    counters["two_link_files"] = 1
                want_local = sorted((selbase + "/" + nm).encode("utf-8", "surrogateescape") for nm in visible)
                want_add = sorted(a.encode() for a in sc["additions"]) if umn else []
                got_targets = [e[2] for e in ents if e[0] == "link"]
                pre_b = (selbase + "/").encode()
                got_local = sorted(t for t in got_targets if t.startswith(pre_b) and b"/" not in t[len(pre_b):])
                got_other = sorted(t for t in got_targets if t not in got_local)
                if sc["proto"] in ("http", "wap", "gemini", "spartan"):
                    # remote additions are rendered as gopher:// URLs
                    got_other = sorted(re.sub(rb"^gopher://[^/]+/1", b"", t) for t in got_other)
                if got_local != want_local:
                    extra = sorted(set(got_local) - set(want_local))
                    missing = sorted(set(want_local) - set(got_local))
                    dup = sorted(set(t for t in got_local if got_local.count(t) > 1))

                    def cls_of(t):
                        nm = t.decode()[len(selbase) + 1:]
                        if nm.startswith("."):
                            return "dotfile"
                        if re.search(ignorepatt, selbase + "/" + nm):
                            return "ignored"
                        if nm in sc["hidden_link"] or nm in sc["hidden_cap"]:
                            return "hidden"
                        return "visible"
                    viol = {"oracle": "exactly-the-visible-entries",
                            "signature": {"oracle": "exactly-the-visible-entries", "handlers": sc["handlers"],
                                          "extra": sorted(set(cls_of(t) for t in extra)),
                                          "missing": sorted(set(cls_of(t) for t in missing)),
                                          "dup": bool(dup)},
                            "detail": "extra=%r missing=%r dup=%r" % (extra, missing, dup)}
                elif got_other != want_add:
                    viol = {"oracle": "exactly-the-link-additions",
                            "signature": {"oracle": "exactly-the-link-additions", "handlers": sc["handlers"]},
                            "detail": "got=%r want=%r" % (got_other, want_add)}
            # the plain DirHandler's dot-file listing (known finding D12) must not hide
            # a different violation later in the same run
            deferred = None
            if viol is not None and viol["signature"].get("handlers") == "plaindir" and \
                    viol["signature"].get("extra") == ["dotfile"] and not viol["signature"].get("missing") \
                    and not viol["signature"].get("dup"):
                deferred, viol = viol, None
            # (3) names kept out of the listing are still retrievable
            if viol is None:
                for nm in excluded:
                    preq, ptls = proto.make_request("gopher", selbase + "/" + nm)
                    pc = run.client(preq, tls=ptls)
                    run.go()
                    counters["excluded_fetched"] = counters.get("excluded_fetched", 0) + 1
                    out = bytes(pc.s2c)
                    fp = os.path.join(root, sc["dir"], nm)
                    empty_ok = os.path.isfile(fp) and os.path.getsize(fp) == 0
                    if os.path.isdir(fp):
                        # a directory whose own entries are all kept out of listings has an empty menu
                        kids = [k for k in simfs.real_listdir(fp) if not k.startswith(".") and not _ctl(k)
                                and not re.search(ignorepatt, selbase + "/" + nm + "/" + k)]
                        empty_ok = not kids
                    if proto.is_not_found("gopher", out) or (not out and not empty_ok):
                        viol = {"oracle": "excluded-still-retrievable",
                                "signature": {"oracle": "excluded-still-retrievable",
                                              "class": "dotfile" if nm.startswith(".") else "ignored-or-hidden"},
                                "detail": "%r -> %r" % (selbase + "/" + nm, common.short(out, 200))}
                        break
            viol = viol or deferred
            run.shutdown()
            counters = common.merge_counters(counters, common.run_counters(run))

        def ncls(nm):
            if nm.startswith("."):
                return "d"
            if nm in MATCH_NAMES:
                return "m"
            if nm in NEAR_NAMES:
                return "n"
            return "p"
        shape = None
        if len(set(orders)) > 1:
            shape = [sc["handlers"], "".join(sorted(ncls(n) for n in sc["names"])), len(sc["linkfiles"]),
                     len(sc["hidden_link"]) + len(sc["hidden_cap"]), sc["proto"]]
        return common.result(viol, shape, counters, common.run_digest(run, resps), tp.rec,
                             run.sim.now - sched.EPOCH, run.sim.steps, run.sim.switches)


def shrink(sc):
    keep = [e for e in sc["spec"] if e["k"] == "dir" and e["p"] == sc["dir"]]
    rest = [e for e in sc["spec"] if e not in keep]
    for cand in common.drop_each(rest):
        c = dict(sc)
        c["spec"] = keep + cand
        ps = set(os.path.basename(e["p"]) for e in cand)
        c["names"] = [n for n in sc["names"] if n in ps]
        c["linkfiles"] = [n for n in sc["linkfiles"] if n in ps]
        if c["linkfiles"] != sc["linkfiles"] or any(".cap/" in e["p"] for e in rest) != any(".cap/" in e["p"] for e in cand):
            continue  # metadata bookkeeping (additions/hidden) would be stale
        yield c
    if sc["proto"] != "gopher":
        yield dict(sc, proto="gopher")
    if sc["servertype"] != "ThreadingTCPServer":
        yield dict(sc, servertype="ThreadingTCPServer")
