#!/usr/bin/env python
"""
C10 hunt, finding 4: any file that is CREATED in a served directory under the
cache file's name (.cache.pygopherd.dir) is believed to be a cache entry:
DirHandler.loadcache() only looks at its mtime and then pickle.load()s it.

So one "create" mutation of the content tree (an upload into an incoming/
directory, an unpacked tarball, `cp -r` of another served directory, ...) makes
every protocol serve, for a whole lifetime, a listing that was never generated
from that directory -- and the file is unpickled inside the server, i.e. the
uploader runs code there.

Check (property-level): the tree is static once the file has been created, so
the listing served with cachetime=180 must be the listing served with
cachetime=0 over an identical tree ("the cache is transparent"; "with lifetime
0 every listing reflects the current directory").  Exit 0 iff they are equal.

Run:  cd /tmp/wt4-C10 && /venv/bin/python HUNT/4/demo.py
"""
import json
import os
import pickle
import shutil
import subprocess
import sys
import tempfile
import time

ROOT = os.path.dirname(os.path.dirname(os.path.dirname(os.path.abspath(__file__))))
sys.path.insert(0, ROOT)
os.chdir(ROOT)

REQUESTS = [("gopher", "/incoming"), ("http", "/incoming")]


class SideEffect:
    """Stands for whatever the uploader wants to run inside the server: here it
    only creates an empty marker directory next to the document root."""

    def __init__(self, marker):
        self.marker = marker

    def __reduce__(self):
        return (os.makedirs, (self.marker, 0o777, True))


def build_tree(root, marker):
    from pygopherd.gopherentry import GopherEntry

    os.makedirs(os.path.join(root, "incoming"))
    with open(os.path.join(root, "incoming", "hello.txt"), "w") as fp:
        fp.write("hello\n")

    # The "create" mutation: somebody drops a file with the reserved name.
    phantom = GopherEntry("/incoming/hello.txt", None)
    phantom.type = "1"
    phantom.name = "hello (mirror)"
    phantom.host = "evil.example"
    phantom.port = 70
    phantom.language = SideEffect(marker)  # evaluated by pickle.load()
    with open(os.path.join(root, "incoming", ".cache.pygopherd.dir"), "wb") as fp:
        pickle.dump([phantom], fp, 1)


def serve(root, cachetime):
    """Runs inside a child process: one 'server' with a fixed configuration."""
    from io import BytesIO

    from pygopherd import initialization, logger, testutil
    from pygopherd.protocols import ProtocolMultiplexer

    config = initialization.init_config("conf/pygopherd.conf")
    config.set("pygopherd", "root", root)
    config.set("pygopherd", "servername", "gopher.example")
    config.set("logger", "logmethod", "none")
    config.set("handlers.dir.DirHandler", "cachetime", str(cachetime))
    logger.init(config)
    initialization.init_mimetypes(config)

    server = None
    for _ in range(50):
        try:
            server = testutil.get_testing_server(config)
            break
        except OSError:
            time.sleep(0.2)
    assert server is not None, "could not bind the test port"

    out = []
    for proto, selector in REQUESTS:
        if proto == "gopher":
            line = selector + "\r\n"
        else:
            line = "GET %s HTTP/1.0\r\n" % selector
        rfile = BytesIO(b"\r\n")
        wfile = BytesIO()
        handler = testutil.MockRequestHandler(
            testutil.MockRequest(rfile, wfile), ("10.77.77.77", "7777"), server
        )
        handler.rfile, handler.wfile = rfile, wfile
        protocol = ProtocolMultiplexer.getProtocol(
            line, server, handler, rfile, wfile, config
        )
        protocol.handle()
        out.append(wfile.getvalue().decode(errors="surrogateescape"))
    return out


def run_server(root, cachetime):
    res = subprocess.run(
        [sys.executable, os.path.abspath(__file__), "--serve", root, str(cachetime)],
        capture_output=True,
        text=True,
        cwd=ROOT,
    )
    if res.returncode != 0:
        print(res.stdout)
        print(res.stderr)
        raise SystemExit("child server failed")
    return json.loads(res.stdout.strip().splitlines()[-1])


def body(resp):
    if resp.startswith("HTTP/"):
        resp = resp.split("\r\n\r\n", 1)[1]
        # keep the table rows only
        return "\n".join(ln for ln in resp.splitlines() if "<A HREF=" in ln and "<TT>" in ln)
    return resp


def main():
    tmp = tempfile.mkdtemp(prefix="c10-h4-")
    try:
        root_ref = os.path.join(tmp, "ref")
        root_sut = os.path.join(tmp, "sut")
        mark_ref = os.path.join(tmp, "code-ran-in-ref-server")
        mark_sut = os.path.join(tmp, "code-ran-in-cached-server")
        build_tree(root_ref, mark_ref)
        build_tree(root_sut, mark_sut)

        reference = run_server(root_ref, 0)
        observed = run_server(root_sut, 180)

        bad = 0
        for (proto, selector), ref, obs in zip(REQUESTS, reference, observed):
            same = body(ref) == body(obs)
            print("%s %-6s %s" % ("ok      " if same else "MISMATCH", proto, selector))
            if not same:
                bad += 1
                print("  cachetime=0   (the directory on disk: %s):"
                      % sorted(n for n in os.listdir(os.path.join(root_sut, "incoming"))
                               if not n.startswith(".")))
                for ln in body(ref).splitlines():
                    print("     " + ln)
                print("  cachetime=180 (same tree):")
                for ln in body(obs).splitlines():
                    print("     " + ln)
        print("payload inside the planted file was executed by the cachetime=180 "
              "server: %s" % os.path.isdir(mark_sut))
        if bad:
            print(
                "\nFAIL: the listing of /incoming is the content of a file that a "
                "content author created in the directory, not a listing that was "
                "ever generated from the directory."
            )
            return 1
        print("PASS: caching was transparent")
        return 0
    finally:
        shutil.rmtree(tmp, ignore_errors=True)


if __name__ == "__main__":
    if len(sys.argv) >= 4 and sys.argv[1] == "--serve":
        print(json.dumps(serve(sys.argv[2], int(sys.argv[3]))))
        sys.exit(0)
    sys.exit(main())
