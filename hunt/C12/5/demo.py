"""C12 demo 5: two more server-side sidecar files are opened without checking that
they are regular files, so a FIFO carrying their name hangs the listing:
  (a) /d/.cache.pygopherd.zip3.x.zip  (ZIP index cache, ZIP handler enabled)
  (b) /d/.cap/alpha.txt               (UMN .cap sidecar, default configuration)

Run as:  cd /tmp/wt4-C12 && /venv/bin/python HUNT/5/demo.py
Exits 0 if every listing succeeds and contains every other entry.
"""
import io
import os
import shutil
import sys
import tempfile
import threading
import time
import warnings

ROOT = os.path.dirname(os.path.dirname(os.path.dirname(os.path.abspath(__file__))))
sys.path.insert(0, ROOT)
os.chdir(ROOT)
warnings.simplefilter("ignore")

from pygopherd import initialization, logger, testutil  # noqa: E402
from pygopherd.protocols import ProtocolMultiplexer  # noqa: E402
import pygopherd.handlers.HandlerMultiplexer as HM  # noqa: E402
import pygopherd.handlers.base as hbase  # noqa: E402

TIMEOUT = 2.0


class FakeServer:
    server_name = "localhost"
    server_port = 70


class FakeRequestHandler:
    def __init__(self, tls, rfile, wfile):
        self.client_address = ("10.1.1.1", 1234)
        cls = testutil.MockSSLRequest if tls else testutil.MockRequest
        self.request = cls(rfile, wfile)
        self.rfile, self.wfile = rfile, wfile


def make_config(root, handlers=None, cachetime=None):
    config = initialization.init_config("conf/pygopherd.conf")
    config.set("pygopherd", "root", root)
    config.set("logger", "logmethod", "none")
    if handlers:
        config.set("handlers.HandlerMultiplexer", "handlers", handlers)
    if cachetime is not None:
        config.set("handlers.dir.DirHandler", "cachetime", str(cachetime))
    logger.init(config)
    HM.handlers = None
    HM.rootpath = None
    hbase.rootpath = None
    return config


def do_request(config, line, tls=False):
    """Drive the real protocol + handler code in-process.  Returns
    (status, output) where status is 'ok', 'hang' or 'exception: ...'."""
    rfile = io.BytesIO(line.encode())
    wfile = io.BytesIO()
    server = FakeServer()
    server.config = config
    rh = FakeRequestHandler(tls, rfile, wfile)
    proto = ProtocolMultiplexer.getProtocol(
        rfile.readline().decode(), server, rh, rfile, wfile, config
    )
    result = {}

    def run():
        try:
            proto.handle()
            result["status"] = "ok"
        except BaseException as e:  # noqa
            result["status"] = "exception: %r" % (e,)

    t = threading.Thread(target=run, daemon=True)
    t.start()
    t.join(TIMEOUT)
    if t.is_alive():
        return "hang (no answer after %.0f s)" % TIMEOUT, wfile.getvalue()
    return result["status"], wfile.getvalue()


REQUESTS = [
    ("gopher", "/d\r\n", False),
    ("gopher+", "/d\t$\r\n", False),
    ("http", "GET /d HTTP/1.0\r\n\r\n", False),
    ("wap", "GET /wap/d HTTP/1.0\r\n\r\n", False),
    ("gemini", "gemini://localhost/d\r\n", True),
    ("spartan", "localhost /d 0\r\n", False),
]
import zipfile

ZIP_HANDLERS = """[url.HTMLURLHandler, gophermap.BuckGophermapHandler, ZIP.ZIPHandler,
    mbox.MaildirFolderHandler, mbox.MaildirMessageHandler, UMN.UMNDirHandler,
    html.HTMLFileTitleHandler, mbox.MBoxMessageHandler, mbox.MBoxFolderHandler,
    file.FileHandler]"""
OTHERS = ["/d/alpha.txt", "/d/beta.txt", "/d/x.zip"]


def build_tree(fifo):
    root = tempfile.mkdtemp(prefix="c12-5-")
    d = os.path.join(root, "d")
    os.mkdir(d)
    for name in ("alpha.txt", "beta.txt"):
        with open(os.path.join(d, name), "w") as fp:
            fp.write("hello\n")
    with zipfile.ZipFile(os.path.join(d, "x.zip"), "w") as z:
        z.writestr("one.txt", "1\n")
    os.mkdir(os.path.join(d, ".cap"))
    if fifo:
        os.mkfifo(os.path.join(d, fifo))
    return root


SCENARIOS = [
    # label, FIFO (relative to /d), handler list, ZIP enabled
    ("(a) ZIP handler enabled", ".cache.pygopherd.zip3.x.zip", ZIP_HANDLERS, True),
    ("(b) default configuration", ".cap/alpha.txt", None, False),
]


def main():
    failures = []
    roots = []
    mime_done = False
    for label, fifo, handlers, zip_enabled in SCENARIOS:
        for with_fifo in (False, True):
            for proto, line, tls in REQUESTS:
                root = build_tree(fifo if with_fifo else None)
                roots.append(root)
                config = make_config(root, handlers)
                if zip_enabled:
                    config.set("handlers.ZIP.ZIPHandler", "enabled", "true")
                if not mime_done:
                    initialization.init_mimetypes(config)
                    mime_done = True
                status, out = do_request(config, line, tls)
                missing = [s for s in OTHERS if s.encode() not in out]
                good = status == "ok" and not missing
                if not with_fifo:
                    assert good, ("control failed", label, proto, status, out)
                elif not good:
                    failures.append((label, proto))
                    print(
                        "VIOLATION [%s, FIFO at /d/%s] %s request %r: %s; entries "
                        "missing from the listing: %s"
                        % (label, fifo, proto, line, status, missing)
                    )
    if failures:
        print()
        print(
            "%d listing(s) of /d failed although the only unservable entry is one "
            "FIFO; the control trees without the FIFO list alpha.txt, beta.txt and "
            "x.zip on every protocol." % len(failures)
        )
        sys.stdout.flush()
        for root in roots:
            shutil.rmtree(root, ignore_errors=True)
        os._exit(1)
    for root in roots:
        shutil.rmtree(root, ignore_errors=True)
    print("OK: the FIFO never took its directory down")
    sys.exit(0)


main()
