"""C20 hunt #2: a connection RESET during a response is (also) logged as a
BrokenPipeError, i.e. under another error class than the failure's own.

BaseGopherProtocol.handle(), GopherPlusProtocol.handle() and
HTTPProtocol.handle() (hence WAP, HTTPS, secure gopher, ...) catch *every*
IOError raised inside the response -- including the failure of the client
socket itself -- treat it like an unreadable document, log it, and then try
to send an error page ("3Connection reset by peer<TAB>...", "--2...",
"HTTP/1.0 404 ...") over the very connection that has just failed.  On a real
kernel the first send() after an RST fails with ECONNRESET and every later
one with EPIPE, so that second write fails with a *different* error, which
escapes to GopherRequestHandler.handle() and is logged again -- this time as
"EXCEPTION BrokenPipeError".  One reset, two different error classes in the
log.  (Spartan and Gemini, whose document writes are outside of the try
block, log the reset once and correctly; they serve as the control.)

No fault injection: a real TCP connection over the loopback interface, the
client sends its request and closes with SO_LINGER 0 (-> RST).

Run:  cd /tmp/wt4-C20 && /venv/bin/python HUNT/2/demo.py
Exit status: 0 if the property holds, 1 if it is violated.
"""
import io
import os
import select
import shutil
import socket
import struct
import sys
import tempfile
import warnings

warnings.filterwarnings("ignore")  # simpletal's invalid-escape SyntaxWarnings

ROOT = os.path.dirname(os.path.dirname(os.path.dirname(os.path.abspath(__file__))))
sys.path.insert(0, ROOT)
os.chdir(ROOT)

from pygopherd import GopherExceptions, initialization, logger  # noqa: E402
import pygopherd.handlers.base as hbase  # noqa: E402
from pygopherd.handlers import HandlerMultiplexer  # noqa: E402


def build():
    tmp = tempfile.mkdtemp(prefix="c20-hunt2-")
    root = os.path.join(tmp, "root")
    os.makedirs(os.path.join(root, "dir"))
    with open(os.path.join(root, "doc.txt"), "w") as fp:
        fp.write("hello world\n" * 20)
    for i in range(4):
        with open(os.path.join(root, "dir", "f%d.txt" % i), "w") as fp:
            fp.write("x\n")

    # conf/pygopherd.conf as shipped: default handlers, default protocols
    config = initialization.init_config("conf/pygopherd.conf")
    config.set("pygopherd", "root", root)
    config.set("pygopherd", "port", "0")
    config.set("pygopherd", "servertype", "ThreadingTCPServer")
    logger.log = lambda message: None
    GopherExceptions.init(False)
    initialization.init_mimetypes(config)
    server = initialization.get_server(config)
    server.server_close()
    return tmp, server


def serve_to_resetting_client(server, request: bytes):
    HandlerMultiplexer.handlers = None
    hbase.rootpath = None
    lines = []
    logger.log = lines.append
    escaped = []
    server.handle_error = lambda req, addr: escaped.append(sys.exc_info()[1])

    listener = socket.socket(socket.AF_INET, socket.SOCK_STREAM)
    listener.bind(("127.0.0.1", 0))
    listener.listen(1)
    client = socket.socket(socket.AF_INET, socket.SOCK_STREAM)
    client.connect(listener.getsockname())
    conn, addr = listener.accept()
    listener.close()

    client.sendall(request)
    client.setsockopt(socket.SOL_SOCKET, socket.SO_LINGER, struct.pack("ii", 1, 0))
    client.close()  # RST
    # wait until the reset has reached the server end (does not consume it)
    poller = select.poll()
    poller.register(conn, select.POLLIN)
    for _ in range(200):
        if any(ev & (select.POLLERR | select.POLLHUP) for _, ev in poller.poll(50)):
            break

    stderr, sys.stderr = sys.stderr, io.StringIO()
    try:
        server.finish_request(conn, addr)
    except Exception as exc:
        escaped.append(exc)
    finally:
        sys.stderr = stderr
        server.shutdown_request(conn)
    return addr, lines, escaped


CASES = [
    ("control  Spartan document", b"localhost /doc.txt 0\r\n"),
    ("gopher   document        ", b"/doc.txt\r\n"),
    ("gopher   menu            ", b"/dir\r\n"),
    ("gopher+  document        ", b"/doc.txt\t+\r\n"),
    ("gopher+  info            ", b"/doc.txt\t!\r\n"),
    ("http     document        ", b"GET /doc.txt HTTP/1.0\r\n\r\n"),
    ("wap      menu            ", b"GET /wap/dir HTTP/1.0\r\n\r\n"),
]


def main():
    tmp, server = build()
    violations = 0
    try:
        for label, request in CASES:
            addr, lines, escaped = serve_to_resetting_client(server, request)
            exc_lines = [l for l in lines if " EXCEPTION " in l]
            own = [
                l
                for l in exc_lines
                if l.startswith(addr[0] + " ") and "EXCEPTION ConnectionResetError:" in l
            ]
            other = [l for l in exc_lines if "EXCEPTION ConnectionResetError:" not in l]
            print(f"--- {label} request={request!r}")
            for line in lines:
                print("    log:", line)
            if not own:
                # The kernel did not report ECONNRESET on this platform; the
                # scenario did not happen, nothing to judge.
                print("    (no ECONNRESET observed; case not applicable here)")
                continue
            problems = []
            if escaped:
                problems.append("escaped to the server: %r" % escaped)
            if other:
                problems.append(
                    "the reset was also logged under another error class: %s"
                    % [l.split(" EXCEPTION ")[1] for l in other]
                )
            if problems:
                violations += 1
                for p in problems:
                    print("    VIOLATION:", p)
            else:
                print("    OK: logged as ConnectionResetError only")
        print()
        print("violating cases: %d of %d" % (violations, len(CASES)))
        return 1 if violations else 0
    finally:
        shutil.rmtree(tmp, ignore_errors=True)


if __name__ == "__main__":
    sys.exit(main())
