"""C12 - one unservable entry never takes down its directory.

A generated directory gets one or two extra entries that cannot be served:
dangling / looping symlink, FIFO, UNIX socket, a name the security filter
rejects, a stat that fails (ENOENT/EACCES/EIO) after the name was enumerated,
or a concurrent deletion placed exactly between enumeration and a chosen
inspection step (stat, or the later open for title sniffing).

Oracle: the listing is a success; after removing entries that point at the
faulty names, its entries equal the reference listing of the same directory
without the faulty entries (same order), in every protocol.
"""
import os
import random

from simkit import harness, proto, sched, world, fs as simfs
from simkit.tape import Tape
from . import common

PROPERTY = "C12"
LEVEL = "fault_enumeration"
RUNS = {"quick": 5000, "thorough": 80000}
BATCH = 40
RULE = ("seeded scenarios: generated directory + 1 or 2 unservable entries (kind in dangling link, "
        "link loop, FIFO, socket, '..'-name, backslash name, stat ENOENT/EACCES/EIO after listdir, "
        "deletion between enumeration and the n-th inspection call) at varied sort positions x "
        "protocol x directory handler x server type; non-trivial = the fault fired or the special "
        "entry was enumerated; distinct = distinct (kinds, positions, protocol, handler) tuples")
REAL = common.REAL
STUB = common.STUB
ASSUMPTIONS = [
    "a deletion between enumeration and inspection is injected at an exact seam call (n-th stat/open "
    "of that path) instead of by a free-running admin actor; this enumerates the same interleavings",
    "opening a FIFO without a writer is modelled as blocking for ever (as the kernel does)",
]
PROBES_REQUIRED = ["fs_vanished", "fs_fault_stat_EACCES", "special_enumerated"]

KINDS = ["dangling", "loop", "fifo", "socket", "dotdot", "backslash", "stat-ENOENT",
         "stat-EACCES", "stat-EIO", "vanish-stat", "vanish-open", "dot-dangling", "dot-socket",
         "dot-fifo", "vanish-any", "vanish-sidecar", "sidecar-socket", "sidecar-dangling",
         "sidecar-fifo", "cache-fifo", "cache-socket", "cache-dangling", "cache-dir", "dot-loop", "dot-stat-EACCES", "dot-stat-EIO", "dot-stat-ELOOP", "stat-ELOOP",
         "cap-fifo", "cap-socket", "cap-dangling", "zipcache-fifo", "zipcache-socket", "zip-emptylink",
         "zip-badlinks", "gmap-vanish", "gmap-stat-EACCES", "gmap-stat-ENOENT",
         "gmapname-socket", "gmapname-fifo", "gmapname-dir", "gmapname-dangling", "gmapname-loop",
         "zip-damaged", "zip-oddmembers", "pyg-broken", "pyg-nomain", "pyg-raises", "tal-notype", "gmap-badport",
         "dot-dotdot", "dot-backslash",
         "cap-is-fifo", "cap-is-socket", "cap-is-file", "cap-is-loop", "cap-is-link-to-file"]
# kinds that need the ZIP handler in the chain / a gophermap in the directory
ZIP_KINDS = ("zipcache-fifo", "zipcache-socket", "zip-emptylink", "zip-badlinks", "zip-damaged", "zip-oddmembers",
             "pyg-broken", "pyg-nomain", "pyg-raises", "tal-notype")
GMAP_KINDS = ("gmap-vanish", "gmap-stat-EACCES", "gmap-stat-ENOENT", "gmap-badport")
PREFIXES = ["0", "a", "m", "zz", "B"]


def _bad_entry(rng, kind, pre, i):
    base = rng.choice(PREFIXES) + "bad%d" % i
    if rng.random() < 0.2:
        base += rng.choice(["\udcae", "\udcff\udcfe", "-\u00e9\u0301"])     # not UTF-8 on disk / not NFC
    ent = []
    faults = []
    if kind == "dangling":
        name = base + rng.choice(["", ".txt", ".html"])
        ent.append({"p": pre + name, "k": "symlink", "to": "nowhere-" + base})
    elif kind == "loop":
        name = base
        ent.append({"p": pre + name, "k": "symlink", "to": name})
    elif kind == "fifo":
        name = base + rng.choice(["", ".txt"])
        ent.append({"p": pre + name, "k": "fifo"})
    elif kind == "socket":
        name = base
        ent.append({"p": pre + name, "k": "socket"})
    elif kind == "dotdot":
        name = base + rng.choice(["..txt", "..", "..x.html", "a..b"])
        ent.append({"p": pre + name, "k": "file", "d": "hidden by the filter\n"})
    elif kind == "backslash":
        name = base + rng.choice([".\\x", "\\\\y.txt"])
        ent.append({"p": pre + name, "k": "file", "d": "hidden by the filter\n"})
    elif kind.startswith("stat-"):
        name = base + rng.choice([".txt", ".html", "", ".mbox"])
        ent.append({"p": pre + name, "k": "file", "d": "<title>t</title>ordinary file\n"})
        faults.append({"op": "stat", "rel": pre + name, "kind": kind[5:], "nth": "all",
                       "after_listed": True})
    elif kind == "vanish-stat":
        name = base + rng.choice([".txt", ".html", ""])
        ent.append({"p": pre + name, "k": "file", "d": "<title>t</title>soon gone\n"})
        faults.append({"op": "stat", "rel": pre + name, "kind": "vanish",
                       "nth": rng.choice([0, 0, 1, 2]), "after_listed": True})
    elif kind == "vanish-open":
        name = base + rng.choice([".html", ".html", ".txt", ""])
        ent.append({"p": pre + name, "k": "file",
                    "d": "From a@b.c Sat Sep  8 01:00:00 2001\nSubject: s\n\nx\n"
                    if rng.random() < 0.3 else "<title>t</title>soon gone\n"})
        faults.append({"op": "open", "rel": pre + name, "kind": "vanish", "nth": 0,
                       "after_listed": True, "mode": "r"})
    elif kind == "vanish-any":
        # deleted right before the n-th file-system call (of any kind) that touches it
        name = base + rng.choice([".html", ".txt", ".mbox", "", ".html"])
        ent.append({"p": pre + name, "k": "file",
                    "d": rng.choice(["<title>t</title>soon gone\n",
                                     "From a@b.c Sat Sep  8 01:00:00 2001\nSubject: s\n\nx\n", "plain\n"])})
        faults.append({"op": "any", "rel": pre + name, "kind": "vanish", "nth": rng.randrange(0, 6),
                       "after_listed": True})
    elif kind == "vanish-sidecar":
        # a healthy entry whose .abstract sidecar disappears between enumeration and use: the
        # unservable directory entry is the sidecar; the entry itself must stay listed
        ext = rng.choice([".abstract", ".abstract", ".keywords", ".ask", ".3d"])
        name = base + ".txt" + ext
        ent.append({"p": pre + base + ".txt", "k": "file", "d": "has a sidecar\n", "healthy": True})
        ent.append({"p": pre + name, "k": "file", "d": "about it\n"})
        faults.append({"op": "any", "rel": pre + name, "kind": "vanish",
                       "nth": rng.randrange(0, 3), "after_listed": True})
    elif kind in ("sidecar-socket", "sidecar-dangling", "sidecar-fifo"):
        ext = rng.choice([".abstract", ".abstract", ".keywords", ".ask", ".3d"])
        name = base + ".txt" + ext
        ent.append({"p": pre + base + ".txt", "k": "file", "d": "neighbour of a special sidecar\n",
                    "healthy": True})
        if kind == "sidecar-socket":
            ent.append({"p": pre + name, "k": "socket"})
        elif kind == "sidecar-fifo":
            ent.append({"p": pre + name, "k": "fifo"})
        else:
            ent.append({"p": pre + name, "k": "symlink", "to": "nowhere-" + base})
    elif kind.startswith("cache-"):
        # the unservable entry carries the name of the directory cache file
        name = ".cache.pygopherd.dir"
        k2 = kind[6:]
        # fresh (younger than the cache lifetime: the server would read it) or old (it would rewrite it)
        age = rng.choice([10, 10, world.BASE_AGE])
        if k2 == "fifo":
            ent.append({"p": pre + name, "k": "fifo", "age": age})
        elif k2 == "socket":
            ent.append({"p": pre + name, "k": "socket", "age": age})
        elif k2 == "dangling":
            ent.append({"p": pre + name, "k": "symlink", "to": "nowhere-cache"})
        else:
            ent.append({"p": pre + name, "k": "dir", "age": age})
    elif kind.startswith("cap-is-"):
        # what carries the name of the UMN .cap directory is not a directory
        name = ".cap"
        ent.append({"p": pre + base + ".txt", "k": "file", "d": "next to a .cap that is no directory\n", "healthy": True})
        if kind == "cap-is-fifo":
            ent.append({"p": pre + name, "k": "fifo"})
        elif kind == "cap-is-socket":
            ent.append({"p": pre + name, "k": "socket"})
        elif kind == "cap-is-file":
            ent.append({"p": pre + name, "k": "file", "d": "Name=not a directory\n"})
        elif kind == "cap-is-loop":
            ent.append({"p": pre + name, "k": "symlink", "to": name})
        else:
            ent.append({"p": pre + base + ".txt.target", "k": "file", "d": "a regular file\n", "healthy": True})
            ent.append({"p": pre + name, "k": "symlink", "to": base + ".txt.target"})
    elif kind.startswith("cap-"):
        # the UMN .cap/<name> sidecar of a healthy entry is a special file
        name = ".cap"
        ent.append({"p": pre + base + ".txt", "k": "file", "d": "has a special .cap file\n", "healthy": True})
        ent.append({"p": pre + ".cap", "k": "dir"})
        capf = pre + ".cap/" + base + ".txt"
        if kind == "cap-fifo":
            ent.append({"p": capf, "k": "fifo"})
        elif kind == "cap-socket":
            ent.append({"p": capf, "k": "socket"})
        else:
            ent.append({"p": capf, "k": "symlink", "to": "nowhere-" + base})
    elif kind.startswith("zipcache-"):
        # a healthy archive; the entry that cannot be served carries the name of its index cache
        zname = base + ".zip"
        ent.append({"p": pre + zname, "k": "zip", "healthy": True,
                    "members": [["a.txt", "zip a\n"], ["d/", ""], ["d/b.txt", "zip b\n"]]})
        name = ".cache.pygopherd.zip3." + zname
        ent.append({"p": pre + name, "k": "fifo" if kind == "zipcache-fifo" else "socket",
                    "age": rng.choice([10, 10, world.BASE_AGE])})
    elif kind in ("zip-emptylink", "zip-badlinks"):
        # an archive whose symbolic-link members cannot be resolved: the archive is the unservable entry
        name = base + ".zip"
        members = [["a.txt", "zip a\n"], ["d/", ""], ["d/b.txt", "zip b\n"]]
        if kind == "zip-emptylink":
            members.insert(rng.randrange(len(members) + 1), ["lnk", "", 0o120777])
        else:
            for j, to in enumerate(rng.sample(["nowhere", "../../etc/passwd", "/", "lnk0", "a.txt/x", "/abs/none",
                                               ".", "d/../..", ""], 3)):
                members.append(["lnk%d" % j, to, 0o120777])
        ent.append({"p": pre + name, "k": "zip", "members": members})
    elif kind == "zip-damaged":
        # the end-of-archive record is there (a partial download, a flipped signature): is_zipfile() says yes
        import base64
        name = base + ".zip"
        ent.append({"p": pre + name, "k": "file",
                    "d": {"b64": base64.b64encode(b"\0" * rng.choice([0, 300]) + b"PK\x05\x06" + b"\0" * 18).decode()}})
    elif kind == "zip-oddmembers":
        name = base + ".zip"
        ent.append({"p": pre + name, "k": "zip", "members": [["a", "a file\n"], ["a/b", "below a file\n"]]})
    elif kind.startswith("pyg-"):
        name = base + ".pyg"
        body = {"pyg-broken": "def (:\n", "pyg-nomain": "x = 1\n", "pyg-raises": "raise RuntimeError('at import')\n"}[kind]
        ent.append({"p": pre + name, "k": "file", "d": body, "x": True})
    elif kind == "tal-notype":
        name = base + ".tal"
        ent.append({"p": pre + name, "k": "file", "d": "<html><body>t</body></html>\n"})
    elif kind == "gmap-badport":
        # a link line of the directory's gophermap whose port field is not a number (the line is added to the
        # faulty world's gophermap in gen())
        name = "remote-" + base.replace("\udcae", "").replace("\udcff\udcfe", "")
    elif kind.startswith("gmap-"):
        # the directory is a Bucktooth gophermap directory; one linked file disappears (or cannot be
        # inspected any more) after the handler has seen that it exists
        name = base + rng.choice([".txt", ".html", ""])
        ent.append({"p": pre + name, "k": "file", "d": "linked from the gophermap\n"})
        if kind == "gmap-vanish":
            faults.append({"op": "stat", "rel": pre + name, "kind": "vanish", "nth": rng.choice([1, 1, 2])})
        else:
            faults.append({"op": "stat", "rel": pre + name, "kind": kind[10:], "nth": rng.choice([1, 1, 2])})
    elif kind.startswith("gmapname-"):
        # the entry that cannot be served is called 'gophermap' (the name that turns a directory into a
        # Bucktooth menu when it is a regular file)
        name = "gophermap"
        k2 = kind[9:]
        if k2 in ("socket", "fifo", "dir"):
            ent.append({"p": pre + name, "k": k2})
        elif k2 == "dangling":
            ent.append({"p": pre + name, "k": "symlink", "to": "nowhere-" + base})
        else:
            ent.append({"p": pre + name, "k": "symlink", "to": name})
    elif kind in ("dot-dotdot", "dot-backslash"):
        # a regular dot-file (UMN reads those as link files) whose own name the selector filter refuses
        name = {"dot-dotdot": rng.choice(["..draft-", ".notes..", ".a.."]),
                "dot-backslash": rng.choice([".win.\\", ".x\\\\"])}[kind] + base
        ent.append({"p": pre + name, "k": "file", "d": rng.choice(["", "# a comment\n", "# only comments\n#\n"])})
    elif kind == "dot-loop":
        name = "." + base
        ent.append({"p": pre + name, "k": "symlink", "to": name})
    elif kind.startswith("dot-stat-"):
        name = "." + base
        ent.append({"p": pre + name, "k": "file", "d": "# a link file that cannot be inspected\n"})
        faults.append({"op": "stat", "rel": pre + name, "kind": kind[9:], "nth": "all", "after_listed": True})
    elif kind == "dot-dangling":
        name = "." + base
        ent.append({"p": pre + name, "k": "symlink", "to": "nowhere-" + base})
    elif kind == "dot-socket":
        name = "." + base
        ent.append({"p": pre + name, "k": "socket"})
    elif kind == "dot-fifo":
        name = "." + base
        ent.append({"p": pre + name, "k": "fifo"})
    else:
        raise ValueError(kind)
    return name, ent, faults


def gen(seed, index, tier):
    rng = random.Random(seed)
    sub = rng.random() < 0.7
    dname = ("docs" if rng.random() < 0.8 else rng.choice(["a", "1", "h"])) if sub else ""
    pre = (dname + "/") if dname else ""
    dspec, names = world.gen_dir(rng, dname, n=rng.randrange(2, 9), mail=rng.random() < 0.2)
    base = ([{"p": dname, "k": "dir"}] if sub else []) + dspec
    nbad = 1 if rng.random() < 0.65 else 2
    kinds = [KINDS[(index + j * 5) % len(KINDS)] if index < 280 else rng.choice(KINDS)
             for j in range(nbad)]
    bad = []
    badspec = []
    faults = []
    if sum(1 for k in kinds if k.startswith("cache-")) > 1:
        kinds = [kinds[0]] + ["fifo" if k.startswith("cache-") else k for k in kinds[1:]]
    if sum(1 for k in kinds if k.startswith("gmapname-")) > 1 or (
            any(k.startswith("gmapname-") for k in kinds) and any(k in GMAP_KINDS for k in kinds)):
        kinds = [kinds[0]] + ["socket" if (k.startswith("gmapname-") or k in GMAP_KINDS) else k for k in kinds[1:]]
    if any(e["p"].startswith(pre + ".cap") for e in dspec):
        # the generated directory already has a real .cap directory
        kinds = ["fifo" if k.startswith("cap-is-") else k for k in kinds]
    if sum(1 for k in kinds if k.startswith("cap-")) > 1:
        kinds = [kinds[0]] + ["socket" if k.startswith("cap-") else k for k in kinds[1:]]
    for j, k in enumerate(kinds):
        name, ent, fl = _bad_entry(rng, k, pre, j)
        bad.append(name)
        for e in ent:
            if e.pop("healthy", False):
                base.append(e)      # a healthy neighbour: part of the reference world, must stay listed
            else:
                badspec.append(e)
        faults.extend(fl)
    if len(dname) == 1:
        # a type-rewriting handler at the end of the list would read '/a/NAME' as 'NAME with type a':
        # the root has healthy files of the same names
        for b in bad:
            if "/" not in b and not b.startswith("."):
                base.append({"p": b, "k": "file", "d": "the root's file of that name\n"})
    # sometimes a UMN link file also talks about the unservable entry (hides it, titles it)
    kinds = list(kinds)
    if rng.random() < 0.3 and not any(e["p"] == pre + ".names" for e in base):
        blocks = []
        for b in bad:
            if b.startswith("."):
                continue
            blocks.append(rng.choice(["Path=./%s\nType=X\n" % b,
                                      "Path=./%s\nName=Titled %s\nNumb=%d\n" % (b, b, rng.randrange(1, 4)),
                                      "Path=./%s\nType=X\n\nPath=./%s\nName=Again\n" % (b, b)]))
        if blocks:
            # metadata about the unservable entries is part of the faulty world, not of the reference
            badspec.append({"p": pre + ".names", "k": "file", "d": "\n".join(blocks)})
            kinds = kinds + ["link-block-names-it"]
    if rng.random() < 0.15 and not any(k.startswith("cache-") for k in kinds):
        # an old cache file is lying around in a tree the server may read but not change
        base.append({"p": pre + ".cache.pygopherd.dir", "k": "file", "d": "left over, expired long ago\n",
                     "age": 10 * world.BASE_AGE})
        for op in ("unlink",):
            faults.append({"op": op, "rel": pre + ".cache.pygopherd.dir", "kind": "EACCES", "nth": "all"})
        kinds = list(kinds) + ["stale-cache-readonly-tree"]
    handlers = rng.choice(["default", "default", "plaindir"])
    if any(k in ZIP_KINDS for k in kinds) or (len(dname) == 1 and rng.random() < 0.7):
        handlers = "full"
    elif any(k.startswith("cap-") for k in kinds):
        handlers = "default"
    if any(k in GMAP_KINDS for k in kinds):
        # both worlds get the same gophermap: it links every generated name and the faulty ones
        if handlers == "plaindir":
            handlers = "default"
        lines = ["iA gophermap directory\t\tnull.host\t1"]
        for nm in names + [b for b, k in zip(bad, kinds) if k in GMAP_KINDS and k != "gmap-badport"]:
            lines.append("%sTitle of %s\t%s" % ("1" if "." not in nm else "0", nm, nm))
        rng.shuffle(lines)
        base.append({"p": pre + "gophermap", "k": "file", "d": "\n".join(lines) + "\n"})
        badport = [b for b, k in zip(bad, kinds) if k == "gmap-badport"]
        if badport:
            lines2 = list(lines)
            for b in badport:
                lines2.insert(rng.randrange(len(lines2) + 1),
                              "1Elsewhere\t%s\thost.example\t%s" % (b, rng.choice(["seventy", "+", "70.0", "7O"])))
            badspec.append({"p": pre + "gophermap", "k": "file", "d": "\n".join(lines2) + "\n"})
    warm = False
    WARMABLE = ("dangling", "loop", "fifo", "socket", "stat-EACCES", "stat-EIO", "stat-ELOOP", "stat-ENOENT",
                "link-block-names-it")
    if all(k in WARMABLE for k in kinds) and rng.random() < 0.35:
        # the entries go bad AFTER a first listing has been served and cached (they were ordinary files then):
        # the second request, inside the cache lifetime, must fare no worse
        warm = True
        kinds = list(kinds) + ["went-bad-after-caching"]
    return {
        "warm": warm,
        "spec": base, "bad_spec": badspec, "bad": bad, "kinds": kinds, "faults": faults,
        "dir": dname, "proto": rng.choice(proto.LISTING_PROTOCOLS),
        "handlers": handlers,
        "servertype": rng.choice(["ThreadingTCPServer", "ForkingTCPServer"]),
        "sched_seed": rng.randrange(1 << 30),
    }


def _strip_bad(entries, sc):
    pre = "/" + (sc["dir"] + "/" if sc["dir"] else "")
    targets = set((pre + b).encode("utf-8", "surrogateescape") for b in sc["bad"])
    # every file that only exists in the faulty world (e.g. a link file about the bad entry, which the
    # plain DirHandler lists)
    targets |= set(("/" + e["p"]).encode("utf-8", "surrogateescape") for e in sc["bad_spec"])
    # (the abstract lines of a faulty entry's own sidecar go with it)
    return [e for e in entries if not (e[0] == "link" and e[2] in targets)
            and not (e[0] == "link" and e[1].strip() == b"Elsewhere" and "gmap-badport" in sc["kinds"])
            and not (e[0] == "info" and e[1].strip() == b"about it")]


def _no_access_keys(proto_name, entries):
    return entries


def execute(sc, tape=None):
    harness.load_repo()
    with harness.Scratch("c12") as base:
        root = os.path.join(base, "root")
        refroot = os.path.join(base, "ref")
        world.build(refroot, sc["spec"])
        if sc.get("warm"):
            placeholders = [{"p": (sc["dir"] + "/" if sc["dir"] else "") + b, "k": "file", "d": "fine for now\n"}
                            for b in sc["bad"]]
            world.build(root, sc["spec"] + placeholders)
        else:
            world.build(root, sc["spec"] + sc["bad_spec"])
        sel = common.selector_of(sc["dir"])
        req, tls = proto.make_request(sc["proto"], sel)
        refout, _ = harness.one_shot(refroot, req, tls=tls, handlers=sc["handlers"],
                                     seed=sc["sched_seed"])
        ref = proto.normalize(sc["proto"], refout)
        ref_entries = proto.parse_listing(sc["proto"], ref)
        if ref_entries is None:
            raise sched.HarnessError("reference listing did not parse: %r" % refout[:300])
        tp = Tape(sc["sched_seed"], replay=tape)
        run = harness.SimRun(root, tp, sc["sched_seed"], servertype=sc["servertype"], tls=True,
                             handlers=sc["handlers"])
        viol = None
        with run:
            if sc.get("warm"):
                c0 = run.client(req, tls=tls)
                run.go()
                for e in placeholders:
                    os.unlink(os.path.join(root, e["p"]))
                cachefiles = {}
                for dp, dn, fn in os.walk(root):
                    for n in fn:
                        if n.startswith(".cache.pygopherd"):
                            cachefiles[os.path.join(dp, n)] = simfs.real_lstat(os.path.join(dp, n)).st_mtime
                world.build(root, sc["bad_spec"])
                for cf_, mt_ in cachefiles.items():     # (build() stamps the whole tree: the caches keep their age)
                    simfs.real_utime(cf_, (mt_, mt_))
                run.count("entry_went_bad_after_listing_was_cached")
            for f in sc["faults"]:
                run.fs.faults.append(simfs.Fault.from_json(dict(
                    {"cut": None, "cuts": None, "mode": None, "nth": 0, "after_listed": False}, **f)))
            c = run.client(req, tls=tls)
            st = run.go()
            got = proto.normalize(sc["proto"], bytes(c.s2c))
            exc = None
            inconclusive = False
            recs = [r for r in run.exception_records()]
            nonfnf = [r for r in recs if r[1] != "FileNotFound"]
            if nonfnf:
                exc = nonfnf[-1][1]
            text = got + "\n".join(run.log).encode("utf-8", "surrogateescape")
            culprit = None
            hits = [(text.find(b.encode("utf-8", "surrogateescape")), k) for b, k in zip(sc["bad"], sc["kinds"])]
            hits = sorted(h for h in hits if h[0] >= 0)
            culprit = hits[0][1] if hits else "+".join(sorted(set(sc["kinds"])))
            if not c.server_done():
                viol = {"oracle": "answered", "signature": {"oracle": "answered", "kind": ("cache-fifo" if "cache-fifo" in sc["kinds"] else "zipcache-fifo" if "zipcache-fifo" in sc["kinds"] else "gmapname-fifo" if "gmapname-fifo" in sc["kinds"] else "cap-fifo" if "cap-fifo" in sc["kinds"] else "dot-fifo" if "dot-fifo" in sc["kinds"] else
                                                                   "sidecar-fifo" if "sidecar-fifo" in sc["kinds"] else culprit),
                                                          "why": "connection never answered (worker blocked)"},
                        "detail": "state=%s blocked=%s" % (st, [a.label for a in run.sim.actors if a.state == "blocked"])}
            elif got != ref:
                ents = proto.parse_listing(sc["proto"], got)
                if ents is None and proto.is_success(sc["proto"], got) and \
                        proto.PROTOCOLS[sc["proto"]][1] in ("http", "wap"):
                    inconclusive = True   # a success in a layout this parser does not know: no verdict
                elif ents is None:
                    viol = {"oracle": "listing-succeeds",
                            "signature": {"oracle": "listing-succeeds", "kind": culprit,
                                          "reply": "empty" if not got else "error", "exc": exc},
                            "detail": "proto=%s got=%r" % (sc["proto"], common.short(got, 300))}
                else:
                    stripped = _strip_bad(ents, sc)
                    cmp_a, cmp_b = stripped, _strip_bad(ref_entries, sc)
                    if sc["proto"] == "wap":
                        pass  # access keys are not part of the parsed entries
                    if cmp_a != cmp_b:
                        viol = {"oracle": "other-entries-intact",
                                "signature": {"oracle": "other-entries-intact",
                                              "kind": culprit},
                                "detail": "proto=%s got=%r want=%r" % (sc["proto"], stripped[:12], ref_entries[:12])}
            run.shutdown()
            counters = common.run_counters(run)
            if inconclusive:
                counters["unparsed_success_no_verdict"] = 1
        special = any(k.startswith(("cache-", "cap-", "zipcache-", "zip-", "gmapname-", "pyg-", "tal-", "dot-")) or k in ("dot-loop", "dangling", "loop", "fifo", "socket", "dotdot", "backslash",
                            "dot-dangling", "dot-socket", "dot-fifo", "sidecar-socket",
                            "sidecar-dangling", "sidecar-fifo") for k in sc["kinds"])
        if special and counters.get("fs_listdir", 0):
            counters["special_enumerated"] = 1
        fired = special or any(f.fired for f in run.fs.faults)
        # position of each bad name among the sorted names of the directory
        allnames = sorted(set(os.path.basename(e["p"]) for e in sc["spec"] + sc["bad_spec"]
                              if os.path.dirname(e["p"]) == sc["dir"]))
        pos = [min(3, allnames.index(b) * 4 // max(1, len(allnames))) if b in allnames else -1
               for b in sc["bad"]]
        shape = [sc["kinds"], pos, sc["proto"], sc["handlers"]] if fired else None
        return common.result(viol, shape, counters, common.run_digest(run, [bytes(c.s2c)]), tp.rec,
                             run.sim.now - sched.EPOCH, run.sim.steps, run.sim.switches)


def shrink(sc):
    for cand in common.drop_each(sc["spec"]):
        if sc["dir"] and not any(e["p"] == sc["dir"] for e in cand):
            continue
        c = dict(sc)
        c["spec"] = cand
        yield c
    if len(sc["bad"]) > 1:
        for j in range(len(sc["bad"])):
            c = dict(sc)
            name = sc["bad"][j]
            c["bad"] = [b for i, b in enumerate(sc["bad"]) if i != j]
            c["kinds"] = [b for i, b in enumerate(sc["kinds"]) if i != j]
            c["bad_spec"] = [e for e in sc["bad_spec"] if os.path.basename(e["p"]) != name]
            c["faults"] = [f for f in sc["faults"] if os.path.basename(f["rel"]) != name]
            yield c
    if sc["proto"] != "gopher":
        c = dict(sc)
        c["proto"] = "gopher"
        yield c
    if sc["servertype"] != "ThreadingTCPServer":
        c = dict(sc)
        c["servertype"] = "ThreadingTCPServer"
        yield c
    if sc["handlers"] != "default":
        c = dict(sc)
        c["handlers"] = "default"
        yield c
