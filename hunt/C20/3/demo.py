"""C20 hunt #3: files opened for a request whose client connection failed are
still open after the connection's handler has returned.

  * ZIP.VFSZip.__init__ opens the archive (self.zipfd) and, when the index
    cache is current, a shelve database; neither is ever closed explicitly
    (zipfd only in __del__).
  * mbox.MBoxFolderHandler.prepare() opens the mailbox file via
    mailbox.mbox(...) and keeps it in self.mbox; it is never closed.

Handler and protocol refer to each other (protocol.handler <-> handler.protocol),
so after a request -- failed or not -- these objects are cyclic garbage and the
descriptors stay open until the cyclic garbage collector happens to run; there
is no try/finally or context manager on the failure path.  A long-running
ThreadingTCPServer therefore keeps one descriptor on the archive/mailbox per
failed client until some later, unrelated collection.

The check: serve the request over a connection whose write number k fails with
EPIPE / ECONNRESET / a single-argument timeout, let the whole per-connection
code (server.finish_request + shutdown_request) return, then look in
/proc/self/fd for descriptors that still point into the document root.
Automatic cyclic GC is switched off while the request runs so that the result
does not depend on when a collection happens to be triggered: code that closes
what it opened passes this check with or without the collector.

Run:  cd /tmp/wt4-C20 && /venv/bin/python HUNT/3/demo.py
Exit status: 0 if the property holds, 1 if it is violated.
"""
import errno
import gc
import io
import os
import shutil
import socket
import sys
import tempfile
import warnings

warnings.filterwarnings("ignore")  # simpletal's invalid-escape SyntaxWarnings

ROOT = os.path.dirname(os.path.dirname(os.path.dirname(os.path.abspath(__file__))))
sys.path.insert(0, ROOT)
os.chdir(ROOT)

from pygopherd import GopherExceptions, initialization, logger  # noqa: E402
import pygopherd.handlers.base as hbase  # noqa: E402
from pygopherd.handlers import HandlerMultiplexer  # noqa: E402

CLIENT = ("10.9.8.7", 4242)

ERRORS = {
    "EPIPE": lambda: BrokenPipeError(errno.EPIPE, "Broken pipe"),
    "ECONNRESET": lambda: ConnectionResetError(
        errno.ECONNRESET, "Connection reset by peer"
    ),
    "timeout": lambda: socket.timeout("timed out"),
}


class FailingSocket:
    """Stands in for the accepted socket: the request can be read from it and
    sendall() number `fail_at` (and every later one) raises the given error."""

    def __init__(self, request, fail_at, make_error):
        self._rfile = io.BytesIO(request)
        self.fail_at = fail_at
        self.make_error = make_error
        self.nwrites = 0

    def makefile(self, mode, bufsize=-1):
        return self._rfile

    def sendall(self, data):
        index = self.nwrites
        self.nwrites += 1
        if self.fail_at is not None and index >= self.fail_at:
            raise self.make_error()

    def shutdown(self, how):
        pass

    def close(self):
        pass


def open_descriptors_under(path):
    found = []
    for fd in os.listdir("/proc/self/fd"):
        try:
            target = os.readlink("/proc/self/fd/" + fd)
        except OSError:
            continue
        if target.startswith(path):
            found.append(os.path.relpath(target, path))
    return sorted(found)


def build():
    tmp = tempfile.mkdtemp(prefix="c20-hunt3-")
    root = os.path.join(tmp, "root")
    os.mkdir(root)
    for name in ("testdata.zip", "python-dev.mbox", "testfile.txt"):
        shutil.copy(os.path.join(ROOT, "testdata", name), root)

    config = initialization.init_config("conf/pygopherd.conf")
    config.set("pygopherd", "root", root)
    config.set("pygopherd", "port", "0")
    config.set("pygopherd", "servertype", "ThreadingTCPServer")
    # the shipped default handler list plus the ZIP handler
    config.set(
        "handlers.HandlerMultiplexer",
        "handlers",
        """[url.HTMLURLHandler, gophermap.BuckGophermapHandler,
            mbox.MaildirFolderHandler, mbox.MaildirMessageHandler,
            ZIP.ZIPHandler,
            UMN.UMNDirHandler, html.HTMLFileTitleHandler,
            mbox.MBoxMessageHandler, mbox.MBoxFolderHandler,
            file.FileHandler]""",
    )
    config.set("handlers.ZIP.ZIPHandler", "enabled", "true")
    logger.log = lambda message: None
    GopherExceptions.init(False)
    initialization.init_mimetypes(config)
    server = initialization.get_server(config)
    server.server_close()
    return tmp, root, server


def serve(server, root, request, fail_at, errname):
    HandlerMultiplexer.handlers = None
    hbase.rootpath = None
    lines = []
    logger.log = lines.append
    escaped = []
    server.handle_error = lambda req, addr: escaped.append(sys.exc_info()[1])
    sock = FailingSocket(request, fail_at, ERRORS[errname])

    gc.collect()
    assert open_descriptors_under(root) == []
    gc.disable()
    stderr, sys.stderr = sys.stderr, io.StringIO()
    try:
        try:
            server.finish_request(sock, CLIENT)
        except Exception as exc:
            escaped.append(exc)
        finally:
            server.shutdown_request(sock)
        left_open = open_descriptors_under(root)
    finally:
        sys.stderr = stderr
        gc.enable()
    gc.collect()
    after_gc = open_descriptors_under(root)
    return sock.nwrites, lines, escaped, left_open, after_gc


CASES = [
    ("control: plain document", b"/testfile.txt\r\n"),
    ("control: mailbox message", b"/python-dev.mbox|/MBOX-MESSAGE/1\r\n"),
    ("mailbox menu            ", b"/python-dev.mbox\r\n"),
    ("ZIP member (gopher)     ", b"/testdata.zip/pygopherd/ziponly\r\n"),
    ("ZIP member (http)       ", b"GET /testdata.zip/pygopherd/ziponly HTTP/1.0\r\n\r\n"),
    ("ZIP directory (gopher+) ", b"/testdata.zip/pygopherd\t$\r\n"),
]


def main():
    tmp, root, server = build()
    violations = 0
    try:
        for label, request in CASES:
            # a clean run tells how many writes the response consists of
            total, _, _, _, _ = serve(server, root, request, None, "EPIPE")
            bad = []
            sample = None
            for errname in ERRORS:
                for k in range(total):
                    _, lines, escaped, left_open, after_gc = serve(
                        server, root, request, k, errname
                    )
                    if left_open or escaped:
                        bad.append((errname, k))
                        sample = sample or (errname, k, lines, left_open, after_gc)
            print(f"--- {label} request={request!r}: {total} writes")
            if not bad:
                print("    OK: nothing left open for any write index / error class")
                continue
            violations += 1
            errname, k, lines, left_open, after_gc = sample
            print(
                "    VIOLATION at %d of %d (error class x write index) points, e.g. "
                "%s at write %d:" % (len(bad), total * len(ERRORS), errname, k)
            )
            for line in lines:
                print("        log:", line)
            print("        still open after the handler returned:", left_open)
            print("        (after an explicit gc.collect():", after_gc, ")")
        # For information: the same with the cyclic collector left exactly as
        # the server runs it (enabled, default thresholds).
        print()
        print("with automatic GC enabled, descriptors into the document root")
        print("that are open after each of 12 consecutive failed connections:")
        for label, request in CASES[2:4]:
            counts = []
            gc.collect()
            for _ in range(12):
                HandlerMultiplexer.handlers = None
                hbase.rootpath = None
                logger.log = lambda message: None
                sock = FailingSocket(request, 0, ERRORS["EPIPE"])
                stderr, sys.stderr = sys.stderr, io.StringIO()
                try:
                    server.finish_request(sock, CLIENT)
                    server.shutdown_request(sock)
                finally:
                    sys.stderr = stderr
                counts.append(len(open_descriptors_under(root)))
            print("    %s %s" % (label, counts))
        print()
        print("violating response kinds: %d" % violations)
        return 1 if violations else 0
    finally:
        shutil.rmtree(tmp, ignore_errors=True)


if __name__ == "__main__":
    sys.exit(main())
