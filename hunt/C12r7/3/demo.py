#!/venv/bin/python
"""C12 demo 3: ONE gophermap line whose port field is not a number takes down
the whole menu of its directory (default configuration).

Exit status 0 = property holds, 1 = property violated, 2 = demo itself broken.
"""
import atexit
import os
import shutil
import sys
import tempfile
import time
import traceback
import warnings

ROOT = os.path.dirname(os.path.dirname(os.path.dirname(os.path.abspath(__file__))))
sys.path.insert(0, ROOT)
os.chdir(ROOT)
warnings.simplefilter("ignore")

from pygopherd import initialization, logger, testutil  # noqa: E402

# (request line, needs TLS mock)
REQUESTS = [
    ("gopher0", "/%s\r\n", False),
    ("gopher+", "/%s\t$\r\n", False),
    ("http", "GET /%s HTTP/1.0\r\n\r\n", False),
    ("spartan", "localhost /%s 0\r\n", False),
    ("gemini", "gemini://localhost/%s\r\n", True),
]


def request(config, line, tls):
    """Drive the real protocol/handler code in-process; returns (reply, exc)."""
    for attempt in range(50):
        try:
            proto = testutil.get_testing_protocol(line, config=config, use_tls=tls)
            break
        except OSError as e:  # port 64777 busy: somebody else runs tests too
            if "in use" not in str(e):
                raise
            time.sleep(0.2)
    else:
        raise SystemExit(2)
    try:
        proto.handle()
    except Exception:
        # In the real server GopherRequestHandler.handle() logs this and the
        # client gets whatever was written so far (nothing, or half a header).
        return proto.wfile.getvalue().decode(errors="surrogateescape"), traceback.format_exc(limit=-3)
    return proto.wfile.getvalue().decode(errors="surrogateescape"), None




MAP = """iWelcome to this directory
0First document\taaa.txt
%s
0Last document\tzzz.txt
1A subdirectory\t/control
"""

VARIANTS = {
    "word": "1Elsewhere\t/pub\tgopher.example.org\tseventy",
    "plus": "1Elsewhere\t/pub\tgopher.example.org\t+",
    "float": "1Elsewhere\t/pub\tgopher.example.org\t70.0",
    "control": "1Elsewhere\t/pub\tgopher.example.org\t70",
}


def main():
    docroot = tempfile.mkdtemp(prefix="c12-gophermap-")
    atexit.register(shutil.rmtree, docroot, True)
    for name, line in VARIANTS.items():
        d = os.path.join(docroot, name)
        os.mkdir(d)
        for good in ("aaa.txt", "zzz.txt"):
            with open(os.path.join(d, good), "w") as fp:
                fp.write("hello\n")
        with open(os.path.join(d, "gophermap"), "w") as fp:
            fp.write(MAP % line)

    config = initialization.init_config("conf/pygopherd.conf")  # default handlers
    config.set("pygopherd", "root", docroot)
    config.set("logger", "logmethod", "none")
    logger.init(config)
    initialization.init_mimetypes(config)

    def check(name):
        bad = []
        for proto, fmt, tls in REQUESTS:
            reply, exc = request(config, fmt % name, tls)
            missing = [n for n in ("/%s/aaa.txt" % name, "/%s/zzz.txt" % name, "/control")
                       if n not in reply]
            if exc or missing:
                bad.append(("/" + name, proto, missing, exc, reply))
        return bad

    if check("control"):
        print("DEMO BROKEN: control menu failed", check("control"))
        return 2

    violations = []
    for name in VARIANTS:
        violations += check(name)

    if not violations:
        print("OK: every menu was served and contains all the other entries")
        return 0
    print("C12 VIOLATED: ONE gophermap line with a non-numeric port takes down the whole menu")
    for sel, proto, missing, exc, reply in violations:
        print("-- %s (bad line %r) over %s: other entries missing: %s; reply=%r"
              % (sel, VARIANTS[sel[1:]], proto, missing, reply[:100]))
        if exc:
            print("   exception escaped protocol.handle():", exc.strip().splitlines()[-1])
    return 1


if __name__ == "__main__":
    sys.exit(main())
