"""C20 hunt #1: a client that goes away while a decompressed document is being
sent is never logged at all.

file.CompressedFileHandler.write() hands the client socket to a child process
(subprocess.run([decompprog], stdin=fp, stdout=wfile)) and ignores the child's
exit status.  When the client connection is broken, the *child* gets the
EPIPE/SIGPIPE, dies, and the server carries on as if the document had been
delivered: no EXCEPTION line with the client's address is written to the log.

The same request for an uncompressed copy of the document (control case) is
logged as "<addr> [...] EXCEPTION BrokenPipeError: ...", which is what the
property demands for every kind of response.

Run:  cd /tmp/wt4-C20 && /venv/bin/python HUNT/1/demo.py
Exit status: 0 if the property holds, 1 if it is violated.
"""
import gzip
import io
import os
import shutil
import socket
import sys
import tempfile
import warnings

warnings.filterwarnings("ignore")  # simpletal's invalid-escape SyntaxWarnings

ROOT = os.path.dirname(os.path.dirname(os.path.dirname(os.path.abspath(__file__))))
sys.path.insert(0, ROOT)
os.chdir(ROOT)

from pygopherd import GopherExceptions, initialization, logger  # noqa: E402
import pygopherd.handlers.base as hbase  # noqa: E402
from pygopherd.handlers import HandlerMultiplexer  # noqa: E402

CLIENT = ("10.9.8.7", 4242)
BODY = b"All work and no play makes Jack a dull boy.\n" * 50000  # ~2 MB


def build():
    if shutil.which("zcat") is None:
        print("SKIP: no zcat on this machine")
        sys.exit(0)
    tmp = tempfile.mkdtemp(prefix="c20-hunt1-")
    root = os.path.join(tmp, "root")
    os.mkdir(root)
    with open(os.path.join(root, "plain.txt"), "wb") as fp:
        fp.write(BODY)
    with gzip.open(os.path.join(root, "packed.txt.gz"), "wb") as fp:
        fp.write(BODY)

    config = initialization.init_config("conf/pygopherd.conf")
    config.set("pygopherd", "root", root)
    config.set("pygopherd", "port", "0")
    config.set("pygopherd", "servertype", "ThreadingTCPServer")
    # The "full featureset" handler list of conf/pygopherd.conf, reduced to
    # what matters here, with the decompressors the same file suggests.
    config.set(
        "handlers.HandlerMultiplexer",
        "handlers",
        "[UMN.UMNDirHandler, file.CompressedFileHandler, file.FileHandler]",
    )
    config.set(
        "handlers.file.CompressedFileHandler", "decompressors", "{'gzip': 'zcat'}"
    )
    logger.log = lambda message: None
    GopherExceptions.init(False)
    initialization.init_mimetypes(config)
    server = initialization.get_server(config)
    server.server_close()  # we only need the object, not the listening socket
    return tmp, server


def serve_to_dead_client(server, request: bytes):
    """Real socket pair; the client sends its request and closes.  Every
    write to the server end then fails with EPIPE."""
    HandlerMultiplexer.handlers = None
    hbase.rootpath = None
    lines = []
    logger.log = lines.append
    escaped = []
    server.handle_error = lambda req, addr: escaped.append(sys.exc_info()[1])

    server_end, client_end = socket.socketpair()
    client_end.sendall(request)
    client_end.close()  # the client is gone before the first response byte
    stderr, sys.stderr = sys.stderr, io.StringIO()
    try:
        # what Threading/ForkingTCPServer do per connection
        server.finish_request(server_end, CLIENT)
    except Exception as exc:  # would be "propagates to the accept loop"
        escaped.append(exc)
    finally:
        sys.stderr = stderr
        server.shutdown_request(server_end)
    return lines, escaped


def failure_lines(lines):
    return [
        line
        for line in lines
        if line.startswith(CLIENT[0] + " ") and "EXCEPTION BrokenPipeError" in line
    ]


def main():
    tmp, server = build()
    try:
        bad = False
        for label, request in [
            ("control: plain document", b"/plain.txt\r\n"),
            ("decompressed document ", b"/packed.txt.gz\r\n"),
        ]:
            lines, escaped = serve_to_dead_client(server, request)
            logged = failure_lines(lines)
            print(f"--- {label}  request={request!r}")
            for line in lines:
                print("    log:", line)
            if escaped:
                print("    escaped to the server:", escaped)
                bad = True
            if logged:
                print("    OK: broken pipe logged with the client's address")
            else:
                print(
                    "    VIOLATION: the client vanished before a single byte of "
                    "the response could be written, yet no EXCEPTION "
                    "BrokenPipeError line for %s was logged" % CLIENT[0]
                )
                bad = True
        return 1 if bad else 0
    finally:
        shutil.rmtree(tmp, ignore_errors=True)


if __name__ == "__main__":
    sys.exit(main())
