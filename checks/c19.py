"""C19 - privileges are dropped completely and in the right order at start-up.

initialization.initialize(conf) runs for real against a generated config file
with every privileged entry point replaced by a recorder backed by a tiny
process model (root directory, cwd, uid, gid, supplementary groups) that
enforces the kernel's preconditions and can be told to fail one call.

The grid (usechroot x setuid x setgid x TLS x detach x server type) x (each
privileged call failing in turn, or none) x (error kind) is finite and is
enumerated completely in both tiers.
"""
import errno
import io
import os
import random
import re
import sys

from simkit import harness, sched, fs as simfs
from . import common

PROPERTY = "C19"
LEVEL = "fault_enumeration"
RUNS = {"quick": 64, "thorough": 512}
BATCH = 40
EXHAUSTIVE_SWEEP = True
RULE = ("complete enumeration of (usechroot, setuid, setgid, enable_tls, detach, servertype) x (no fault | one "
        "failing call among bind, load_cert_chain, getpwnam, getgrnam, chroot, chdir, setgroups, setregid, "
        "setreuid) x (PermissionError, OSError(EINVAL), KeyError for the name lookups); every cell is a distinct "
        "non-trivial case when its fault fired or, for the no-fault row, when at least one privileged call was "
        "made; a few seeded extra runs vary ids, names and ports")
REAL = ["pygopherd.initialization (initialize, init_config, init_logger, init_mimetypes, init_ssl_context, "
        "get_server, init_conditional_detach, init_pidfile, init_process_group, init_signal_handlers, "
        "init_security)", "pygopherd.server classes, socketserver.TCPServer.__init__/server_bind/server_activate",
        "configparser, mimetypes"]
STUB = ["socket.socket (recording listener; bind can fail)", "ssl.create_default_context (recording proxy)",
        "os.fork/setpgrp/getpgrp, signal.signal", "pwd.getpwnam, grp.getgrnam (fake databases)",
        "os.chroot/chdir/setgroups/setregid/setreuid/setuid/setgid (process model enforcing kernel "
        "preconditions: only uid 0 may chroot, setgroups, or change ids arbitrarily)"]
ASSUMPTIONS = ["the process starts as root (uid 0) with supplementary groups and a working directory outside the "
               "document root", "privileged system calls are modelled, not executed"]
PROBES_REQUIRED = ["fault_fired", "chroot_called", "ids_dropped"]

FAULT_POINTS = ["bind", "load_cert_chain", "getpwnam", "getgrnam", "chroot", "chdir", "setgroups",
                "setregid", "setreuid"]
ERRORS = ["EPERM", "EINVAL", "KeyError", "EAGAIN"]   # EAGAIN: fails every time it is retried
PRIV_CALLS = ("chroot", "setgroups", "setregid", "setreuid", "setuid", "setgid", "setresuid", "setresgid",
              "seteuid", "setegid")


def _applies(opts, point):
    if point == "load_cert_chain":
        return opts["tls"]
    if point == "getpwnam":
        return opts["setuid"]
    if point == "getgrnam":
        return opts["setgid"]
    if point in ("chroot", "chdir"):
        return opts["chroot"]
    if point == "setgroups":
        return opts["setuid"] or opts["setgid"]
    if point == "setregid":
        return opts["setgid"]
    if point == "setreuid":
        return opts["setuid"]
    return True


def SWEEP(tier):
    out = []
    for chroot in (False, True):
        for su in (False, True):
            for sg in (False, True):
                for tls in (False, True):
                    for detach in (False, True):
                        for st in ("ForkingTCPServer", "ThreadingTCPServer"):
                            opts = {"chroot": chroot, "setuid": su, "setgid": sg, "tls": tls,
                                    "detach": detach, "servertype": st, "uid": 1234, "gid": 4321,
                                    "user": "gopher", "group": "gophers", "port": 70}
                            out.append({"opts": opts, "fault": None})
                            # other start credentials / ports for the no-fault row
                            out.append({"opts": dict(opts, start="setuid-root-binary"), "fault": None})
                            out.append({"opts": dict(opts, port=7070), "fault": None})
                            if su or sg or chroot or tls:
                                for sp in ("upper", "title", "camel"):
                                    out.append({"opts": dict(opts, spelling=sp), "fault": None})
                                    if su or sg:
                                        out.append({"opts": dict(opts, spelling=sp, respell=["setuid", "setgid"]),
                                                    "fault": None})
                            if su or sg:
                                # pwd/grp report the id 4294967295 as -1, which set*id() take as "leave unchanged"
                                out.append({"opts": dict(opts, uid=-1, gid=-1), "fault": None})
                            if chroot:
                                # where the process stands when it starts: anywhere, /, the root, below it,
                                # or in a sibling directory whose name begins with the root's name
                                for cwd in ("slash", "root", "below", "prefix-sibling"):
                                    out.append({"opts": dict(opts, cwd=cwd), "fault": None})
                            # started without any privilege: whatever is configured and cannot be done must abort
                            out.append({"opts": dict(opts, start="unprivileged", port=7070), "fault": None})
                            out.append({"opts": dict(opts, start="unprivileged-as-target", port=7070), "fault": None})
                            out.append({"opts": dict(opts, port=7070), "fault": {"point": "bind", "error": "EINVAL"}})
                            for pt in FAULT_POINTS:
                                if not _applies(opts, pt):
                                    continue
                                for err in ERRORS:
                                    if (err == "KeyError") != (pt in ("getpwnam", "getgrnam")):
                                        continue
                                    out.append({"opts": opts, "fault": {"point": pt, "error": err}})
    return out


def gen(seed, index, tier):
    rng = random.Random(seed)
    opts = {"chroot": rng.random() < 0.6, "setuid": rng.random() < 0.6, "setgid": rng.random() < 0.6,
            "tls": rng.random() < 0.4, "detach": rng.random() < 0.3,
            "servertype": rng.choice(["ForkingTCPServer", "ThreadingTCPServer"]),
            "uid": rng.choice([1, 65534, 1000, 33]), "gid": rng.choice([1, 65534, 1000, 33]),
            "user": rng.choice(["gopher", "nobody", "www-data"]),
            "group": rng.choice(["gophers", "nogroup", "www-data"]),
            "port": rng.choice([70, 7070, 443, 1024, 1023]),
            "start": rng.choice(["root", "root", "setuid-root-binary", "unprivileged", "unprivileged-as-target"]),
            "cwd": rng.choice(["elsewhere", "slash", "root", "below", "prefix-sibling"]),
            "spelling": rng.choice(["lower", "lower", "upper", "title", "camel"])}
    if opts["spelling"] != "lower" and rng.random() < 0.6:
        allnames = ["setuid", "setgid", "usechroot", "enable_tls", "tls_certfile", "tls_keyfile"]
        opts["respell"] = sorted(rng.sample(allnames, rng.randrange(1, 4)))
    if opts["start"].startswith("unprivileged"):
        opts["port"] = rng.choice([7070, 1024, 70])
    fault = None
    if rng.random() < 0.5:
        pts = [p for p in FAULT_POINTS if _applies(opts, p)]
        pt = rng.choice(pts)
        fault = {"point": pt, "error": "KeyError" if pt in ("getpwnam", "getgrnam") else rng.choice(["EPERM", "EINVAL", "EAGAIN"])}
    return {"opts": opts, "fault": fault}


class Fail(Exception):
    pass


class Model:
    """Recorder + process model for the privileged entry points."""

    def __init__(self, opts, fault, docroot, start_cwd):
        self.opts = opts
        self.fault = fault
        self.calls = []
        self.fired = False
        # effective ids are what the privilege checks look at; real and saved ids are tracked too
        self.uid = 0
        self.gid = 0
        self.ruid = self.suid = 0
        self.rgid = self.sgid = 0
        if opts.get("start") == "setuid-root-binary":
            # started by the target user through a set-uid-root executable: only the effective ids are 0
            self.ruid, self.rgid = opts["uid"], opts["gid"]
        elif opts.get("start") == "unprivileged":
            self.uid = self.ruid = self.suid = 1000
            self.gid = self.rgid = self.sgid = 1000
        elif opts.get("start") == "unprivileged-as-target":
            # an ordinary start by the very account the configuration names
            self.uid = self.ruid = self.suid = opts["uid"] if opts["uid"] > 0 else 1000
            self.gid = self.rgid = self.sgid = opts["gid"] if opts["gid"] > 0 else 1000
        self.start_ids = (self.uid, self.gid)
        self.groups = [0, 4, 24]
        self.root_real = "/"
        self.cwd_real = start_cwd
        self.chrooted = False
        self.docroot = docroot
        self.after_fault = []

    def _maybe_fail(self, point):
        if self.fired:
            self.after_fault.append(point)
        f = self.fault
        if getattr(self, "sticky", None) == point:
            # (a resource limit does not go away because the call is repeated)
            self.after_fault.pop()
            raise BlockingIOError(errno.EAGAIN, "Resource temporarily unavailable")
        if f and f["point"] == point and not self.fired:
            self.fired = True
            e = f["error"]
            if e == "KeyError":
                raise KeyError("getpwnam(): name not found")
            if e == "EPERM":
                raise PermissionError(errno.EPERM, "Operation not permitted")
            if e == "EAGAIN":
                self.sticky = point
                raise BlockingIOError(errno.EAGAIN, "Resource temporarily unavailable")
            raise OSError(errno.EINVAL, "Invalid argument")

    def rec(self, name, *args):
        self.calls.append((name,) + args)

    # ---- entry points
    def bind(self, addr):
        self.rec("bind", addr[1])
        self._maybe_fail("bind")
        if addr[1] < 1024 and self.uid != 0:
            raise PermissionError(errno.EACCES, "Permission denied")

    def load_cert_chain(self, cert, key=None, *a, **k):
        self.rec("load_cert_chain", cert, key)
        self._maybe_fail("load_cert_chain")
        if self.chrooted or self.uid != 0:
            raise PermissionError(errno.EACCES, "key file not readable any more")

    def getpwnam(self, name):
        self.rec("getpwnam", name)
        self._maybe_fail("getpwnam")
        if self.chrooted:
            raise KeyError("getpwnam(): /etc/passwd not available inside the chroot")
        if name != self.opts["user"]:
            raise KeyError(name)
        import pwd
        return pwd.struct_passwd((name, "x", self.opts["uid"], self.opts["gid"], "", "/", "/bin/false"))

    def getgrnam(self, name):
        self.rec("getgrnam", name)
        self._maybe_fail("getgrnam")
        if self.chrooted:
            raise KeyError("getgrnam(): /etc/group not available inside the chroot")
        if name != self.opts["group"]:
            raise KeyError(name)
        import grp
        return grp.struct_group((name, "x", self.opts["gid"], []))

    def chroot(self, path):
        self.rec("chroot", os.fspath(path))
        self._maybe_fail("chroot")
        if self.uid != 0:
            raise PermissionError(errno.EPERM, "Operation not permitted")
        p = os.fspath(path)
        if not os.path.isabs(p):
            p = os.path.normpath(os.path.join(self.cwd_real, p))
        self.root_real = os.path.normpath(self.root_real.rstrip("/") + "/" + p.lstrip("/")) if self.chrooted else p
        self.chrooted = True

    def chdir(self, path):
        self.rec("chdir", os.fspath(path))
        self._maybe_fail("chdir")
        p = os.fspath(path)
        if os.path.isabs(p):
            self.cwd_real = os.path.normpath(self.root_real.rstrip("/") + "/" + p.lstrip("/")) if self.chrooted else p
        else:
            self.cwd_real = os.path.normpath(os.path.join(self.cwd_real, p))

    def setgroups(self, groups):
        self.rec("setgroups", tuple(groups))
        self._maybe_fail("setgroups")
        if self.uid != 0:
            raise PermissionError(errno.EPERM, "Operation not permitted")
        self.groups = list(groups)

    def setregid(self, r, e):
        self.rec("setregid", r, e)
        self._maybe_fail("setregid")
        if self.uid != 0 and not (r in (self.rgid, self.gid, -1) and e in (self.rgid, self.gid, self.sgid, -1)):
            raise PermissionError(errno.EPERM, "Operation not permitted")
        if r != -1:
            self.rgid = r
        if e != -1:
            self.gid = e
        if r != -1 or (e != -1 and e != self.rgid):
            self.sgid = self.gid

    def setreuid(self, r, e):
        self.rec("setreuid", r, e)
        self._maybe_fail("setreuid")
        if self.uid != 0 and not (r in (self.ruid, self.uid, -1) and e in (self.ruid, self.uid, self.suid, -1)):
            raise PermissionError(errno.EPERM, "Operation not permitted")
        if r != -1:
            self.ruid = r
        if e != -1:
            self.uid = e
        if r != -1 or (e != -1 and e != self.ruid):
            self.suid = self.uid

    def setgid(self, g):
        self.rec("setgid", g)
        self._maybe_fail("setregid")
        if self.uid == 0:
            self.rgid = self.gid = self.sgid = g
        elif g in (self.rgid, self.sgid):
            self.gid = g
        else:
            raise PermissionError(errno.EPERM, "Operation not permitted")

    def setuid(self, u):
        self.rec("setuid", u)
        self._maybe_fail("setreuid")
        if self.uid == 0:
            self.ruid = self.uid = self.suid = u
        elif u in (self.ruid, self.suid):
            self.uid = u
        else:
            raise PermissionError(errno.EPERM, "Operation not permitted")

    def setegid(self, g):
        self.rec("setegid", g)
        self._maybe_fail("setregid")
        if self.uid != 0 and g not in (self.rgid, self.gid, self.sgid):
            raise PermissionError(errno.EPERM, "Operation not permitted")
        self.gid = g

    def seteuid(self, u):
        self.rec("seteuid", u)
        self._maybe_fail("setreuid")
        if self.uid != 0 and u not in (self.ruid, self.uid, self.suid):
            raise PermissionError(errno.EPERM, "Operation not permitted")
        self.uid = u

    def setresgid(self, r, e, s):
        self.rec("setresgid", r, e, s)
        self._maybe_fail("setregid")
        if self.uid != 0:
            raise PermissionError(errno.EPERM, "Operation not permitted")
        self.rgid, self.gid, self.sgid = (r if r != -1 else self.rgid, e if e != -1 else self.gid,
                                          s if s != -1 else self.sgid)

    def setresuid(self, r, e, s):
        self.rec("setresuid", r, e, s)
        self._maybe_fail("setreuid")
        if self.uid != 0:
            raise PermissionError(errno.EPERM, "Operation not permitted")
        self.ruid, self.uid, self.suid = (r if r != -1 else self.ruid, e if e != -1 else self.uid,
                                          s if s != -1 else self.suid)

    def cwd_inside_root(self):
        r = self.root_real.rstrip("/")
        return self.cwd_real == r or self.cwd_real.startswith(r + "/") or r == ""


class FakeListen:
    def __init__(self, model, *a, **k):
        self.model = model
        self.addr = ("0.0.0.0", 0)

    def setsockopt(self, *a):
        pass

    def bind(self, addr):
        self.model.bind(addr)
        self.addr = (addr[0] or "0.0.0.0", addr[1])

    def listen(self, *a):
        self.model.rec("listen")

    def getsockname(self):
        return self.addr

    def close(self):
        self.model.rec("close-listener")

    def fileno(self):
        return 998


class FakeCtx:
    def __init__(self, model):
        self.model = model

    def load_cert_chain(self, cert, key=None, *a, **k):
        return self.model.load_cert_chain(cert, key)

    def wrap_socket(self, sock, **k):
        return sock


def execute(sc, tape=None):
    harness.load_repo()
    import grp
    import pwd
    import signal
    import socket
    import ssl
    opts = sc["opts"]
    with harness.Scratch("c19") as base:
        docroot = os.path.join(base, "gopher")
        os.makedirs(docroot)
        confp = os.path.join(base, "pygopherd.conf")
        over = {("pygopherd", "usechroot"): "yes" if opts["chroot"] else "no",
                ("pygopherd", "detach"): "yes" if opts["detach"] else "no",
                ("pygopherd", "servertype"): opts["servertype"],
                ("pygopherd", "port"): str(opts["port"]),
                ("pygopherd", "pidfile"): os.path.join(base, "pygopherd.pid"),
                ("pygopherd", "setuid"): opts["user"] if opts["setuid"] else None,
                ("pygopherd", "setgid"): opts["group"] if opts["setgid"] else None,
                ("pygopherd", "enable_tls"): "yes" if opts["tls"] else "no",
                ("pygopherd", "tls_certfile"): os.path.join(base, "cert.pem"),
                ("pygopherd", "tls_keyfile"): os.path.join(base, "key.pem")}
        cp = harness.base_config(docroot, over)
        with simfs.real_open(confp, "w") as f:
            cp.write(f)
        if opts.get("spelling", "lower") != "lower":
            # configparser option names are case-insensitive: "SetUID = gopher" configures what "setuid = gopher" does
            with simfs.real_open(confp) as f:
                txt = f.read()
            respell = {"upper": str.upper, "title": str.title,
                       "camel": lambda n: {"setuid": "SetUID", "setgid": "SetGID", "usechroot": "useChroot",
                                           "enable_tls": "Enable_TLS", "tls_certfile": "TLS_CertFile",
                                           "tls_keyfile": "TLS_KeyFile"}.get(n, n)}[opts["spelling"]]
            names = opts.get("respell") or ["setuid", "setgid", "usechroot", "enable_tls", "tls_certfile", "tls_keyfile"]
            txt = re.sub(r"(?m)^(%s)(?=\s*=)" % "|".join(names), lambda mo: respell(mo.group(1)), txt)
            with simfs.real_open(confp, "w") as f:
                f.write(txt)
        if opts["tls"]:
            # the files exist and are readable (their content is never parsed: load_cert_chain is modelled)
            for n in ("cert.pem", "key.pem"):
                with simfs.real_open(os.path.join(base, n), "w") as f:
                    f.write("-----BEGIN %s-----\n" % n)
        start_cwd = {"elsewhere": "/var/empty/start", "slash": "/", "root": docroot, "below": docroot + "/sub/dir",
                     "prefix-sibling": docroot + "-private"}[opts.get("cwd", "elsewhere")]
        m = Model(opts, sc["fault"], docroot, start_cwd=start_cwd)
        harness._modstate.restore()
        saved = {}

        def patch(mod, name, val):
            saved[(mod, name)] = getattr(mod, name, None)
            setattr(mod, name, val)

        out = io.TextIOWrapper(io.BytesIO(), encoding="utf-8", errors="surrogateescape")
        result = {"server": None, "exc": None}
        try:
            patch(socket, "socket", lambda *a, **k: FakeListen(m))
            patch(ssl, "create_default_context", lambda *a, **k: FakeCtx(m))
            patch(os, "fork", lambda: (m.rec("fork"), 0)[1])
            patch(os, "setpgrp", lambda: m.rec("setpgrp"))
            patch(os, "getpgrp", lambda: 4000)
            patch(signal, "signal", lambda s, h: m.rec("signal", int(s)))
            patch(pwd, "getpwnam", m.getpwnam)
            patch(grp, "getgrnam", m.getgrnam)
            for n in ("chroot", "chdir", "setgroups", "setregid", "setreuid", "setuid", "setgid",
                      "setresuid", "setresgid", "seteuid", "setegid"):
                patch(os, n, getattr(m, n))
            patch(os, "getcwd", lambda: (("/" + m.cwd_real[len(m.root_real.rstrip("/")):].lstrip("/"))
                                         if m.chrooted and m.cwd_inside_root() else m.cwd_real))
            patch(os, "getuid", lambda: m.ruid)
            patch(os, "geteuid", lambda: m.uid)
            patch(os, "getgid", lambda: m.rgid)
            patch(os, "getegid", lambda: m.gid)
            patch(os, "getgroups", lambda: list(m.groups))
            patch(os, "getresuid", lambda: (m.ruid, m.uid, m.suid))
            patch(os, "getresgid", lambda: (m.rgid, m.gid, m.sgid))
            patch(sys, "stdout", out)
            try:
                result["server"] = harness.pyg.initialization.initialize(confp)
            except SystemExit as e:
                result["exc"] = e
            except BaseException as e:
                result["exc"] = e
        finally:
            for (mod, name), val in saved.items():
                if val is None:
                    try:
                        delattr(mod, name)
                    except AttributeError:
                        pass
                else:
                    setattr(mod, name, val)
        srv = result["server"]
        calls = m.calls
        names = [c[0] for c in calls]
        viol = None

        def V(oracle, detail, **sig):
            return {"oracle": oracle, "signature": dict({"oracle": oracle}, **sig),
                    "detail": detail + " | calls=%r" % (calls,)}

        def idx(n):
            return names.index(n) if n in names else None

        priv_idx = [i for i, n in enumerate(names) if n in PRIV_CALLS]
        first_priv = priv_idx[0] if priv_idx else None
        unusable = (opts["setuid"] and opts["uid"] < 0) or (opts["setgid"] and opts["gid"] < 0)
        unpriv = opts.get("start", "root").startswith("unprivileged")
        if sc["fault"] is None and unpriv and not unusable:
            # nothing privileged can be done: every configured step either is a no-op for these ids or
            # fails, and a failure must abort.  What may never happen is a server that runs without a
            # configured restriction.
            if srv is not None:
                if opts["chroot"] and not m.chrooted:
                    viol = V("served-with-more-privilege-than-configured",
                             "usechroot = yes, started without privilege: initialize returned a server that is not "
                             "chrooted", what="no-chroot")
                elif opts["setuid"] and m.uid != opts["uid"]:
                    viol = V("served-with-more-privilege-than-configured",
                             "setuid configured, started as uid %r: server runs as %r" % (m.start_ids[0], m.uid),
                             what="uid")
                elif opts["setgid"] and m.gid != opts["gid"]:
                    viol = V("served-with-more-privilege-than-configured",
                             "setgid configured, started as gid %r: server runs as %r" % (m.start_ids[1], m.gid),
                             what="gid")
                elif (opts["setuid"] or opts["setgid"]) and m.groups:
                    viol = V("served-with-more-privilege-than-configured",
                             "supplementary groups %r kept" % (m.groups,), what="groups")
            elif not (opts["chroot"] or opts["setuid"] or opts["setgid"]) and opts["port"] >= 1024 \
                    and not opts["tls"]:
                viol = V("startup-succeeds", "initialize raised %r although nothing privileged is configured"
                         % (result["exc"],), exc=type(result["exc"]).__name__)
        elif sc["fault"] is None and unusable:
            # the configured account has the id (uid_t)-1, which set*id() read as "leave unchanged":
            # the only safe outcome is that start-up aborts
            if srv is not None and (m.uid == 0 or m.gid == 0):
                viol = V("unusable-id-aborts-startup",
                         "the configured account maps to id -1; initialize returned a server that still runs as "
                         "uid/gid %r/%r" % (m.uid, m.gid))
        elif sc["fault"] is None:
            if srv is None:
                viol = V("startup-succeeds", "initialize raised %r with no injected failure" % (result["exc"],),
                         exc=type(result["exc"]).__name__)
            else:
                if idx("bind") is None or (first_priv is not None and idx("bind") > first_priv):
                    viol = V("bind-before-privilege-drop", "bind must precede every privilege change")
                elif opts["tls"] and (idx("load_cert_chain") is None or (
                        first_priv is not None and idx("load_cert_chain") > first_priv)):
                    viol = V("keys-before-privilege-drop", "TLS keys must be loaded before any privilege change")
                elif opts["chroot"]:
                    if names.count("chroot") != 1 or m.root_real != os.path.normpath(docroot):
                        # (the argument may be relative - chdir(root); chroot(".") - what counts is where
                        # the process's root ends up)
                        viol = V("chroot-once", "one chroot into %r expected; root is %r" % (docroot, m.root_real))
                    elif idx("chroot") != first_priv:
                        viol = V("chroot-first", "chroot must be the first privilege change")
                    elif srv.config.get("pygopherd", "root") != "/":
                        viol = V("root-rewritten", "config root is %r after chroot" % srv.config.get("pygopherd", "root"))
                    elif not m.cwd_inside_root():
                        viol = V("cwd-inside-new-root",
                                 "after chroot(%s) the working directory is still %s (outside the new root)"
                                 % (m.root_real, m.cwd_real))
                elif "chroot" in names:
                    viol = V("no-unconfigured-step", "chroot called although usechroot = no")
                if viol is None and (opts["setuid"] or opts["setgid"]):
                    gi = idx("setgroups")
                    if gi is None or calls[gi][1] != () or names.count("setgroups") != 1:
                        viol = V("groups-cleared", "setgroups(()) expected exactly once")
                    else:
                        later = [i for i, n in enumerate(names) if n in ("setregid", "setreuid", "setuid", "setgid",
                                                                          "setresuid", "setresgid", "seteuid", "setegid")]
                        if later and min(later) < gi:
                            viol = V("groups-before-ids", "supplementary groups must be cleared before ids change")
                if viol is None and opts["setgid"]:
                    if (m.rgid, m.gid, m.sgid) != (opts["gid"],) * 3:
                        viol = V("group-changed", "real/effective/saved gid = %r after start-up, expected %r"
                                 % ((m.rgid, m.gid, m.sgid), opts["gid"]))
                if viol is None and opts["setuid"]:
                    if (m.ruid, m.uid, m.suid) != (opts["uid"],) * 3:
                        viol = V("user-changed", "real/effective/saved uid = %r after start-up, expected %r"
                                 % ((m.ruid, m.uid, m.suid), opts["uid"]))
                    elif opts["setgid"]:
                        gfirst = min([i for i, n in enumerate(names) if n in ("setregid", "setgid", "setresgid", "setegid")] or [10 ** 6])
                        ufirst = min([i for i, n in enumerate(names) if n in ("setreuid", "setuid", "setresuid", "seteuid")] or [10 ** 6])
                        if ufirst < gfirst:
                            viol = V("group-before-user", "the group must be changed before the user")
                if viol is None:
                    want_uid = opts["uid"] if opts["setuid"] else 0
                    want_gid = opts["gid"] if opts["setgid"] else 0
                    want_groups = [] if (opts["setuid"] or opts["setgid"]) else [0, 4, 24]
                    if (m.uid, m.gid, m.groups) != (want_uid, want_gid, want_groups):
                        viol = V("final-credentials", "uid/gid/groups = %r, expected %r"
                                 % ((m.uid, m.gid, m.groups), (want_uid, want_gid, want_groups)))
                    if viol is None and not opts["setuid"] and any(n in names for n in ("setreuid", "setuid")):
                        viol = V("no-unconfigured-step", "uid changed although setuid is not configured")
        else:
            if not m.fired:
                # the configured path never reached this call (e.g. chdir is not called at all): trivial
                pass
            elif srv is not None:
                viol = V("failure-aborts-startup",
                         "%s failed with %s but initialize returned a server" % (sc["fault"]["point"], sc["fault"]["error"]),
                         point=sc["fault"]["point"])
            elif any(p in PRIV_CALLS for p in m.after_fault):
                viol = V("no-privileged-call-after-failure",
                         "after %s failed, %r were still called" % (sc["fault"]["point"], m.after_fault),
                         point=sc["fault"]["point"])
        counters = {}
        if m.fired:
            counters["fault_fired"] = 1
            counters["fault_" + sc["fault"]["point"]] = 1
        if "chroot" in names:
            counters["chroot_called"] = 1
        if m.uid != 0 or m.gid != 0:
            counters["ids_dropped"] = 1
        nontrivial = m.fired or (sc["fault"] is None and priv_idx)
        shape = None
        if nontrivial:
            shape = [opts["chroot"], opts["setuid"], opts["setgid"], opts["tls"], opts["detach"],
                     opts["servertype"], opts.get("start", "root"), opts.get("cwd", "elsewhere"), opts["port"] < 1024, sc["fault"]["point"] if sc["fault"] else None,
                     sc["fault"]["error"] if sc["fault"] else None]
        norm = [[(a.replace(base, "<BASE>") if isinstance(a, str) else a) for a in c] for c in calls]
        dig = common.digest(norm, repr(type(result["exc"]).__name__ if result["exc"] else None))
        return common.result(viol, shape, counters, dig, [], 0.0)


def shrink(sc):
    o = sc["opts"]
    for k in ("detach", "tls", "setuid", "setgid", "chroot"):
        if o[k] and not (sc["fault"] and not _applies(dict(o, **{k: False}), sc["fault"]["point"])):
            yield dict(sc, opts=dict(o, **{k: False}))
