#!/venv/bin/python
"""C12 demo 5: ONE member of a ZIP archive that the index builder cannot
digest (a name carried in an Info-ZIP "Unicode Path" extra field, or a symlink
member whose body fails its CRC) takes down the listing of the archive's own
directory AND the listing of the real directory that holds the archive.

Exit status 0 = property holds, 1 = property violated, 2 = demo itself broken.
"""
import atexit
import os
import shutil
import sys
import tempfile
import time
import traceback
import warnings

ROOT = os.path.dirname(os.path.dirname(os.path.dirname(os.path.abspath(__file__))))
sys.path.insert(0, ROOT)
os.chdir(ROOT)
warnings.simplefilter("ignore")

from pygopherd import initialization, logger, testutil  # noqa: E402

import stat  # noqa: E402
import struct  # noqa: E402
import zipfile  # noqa: E402
import zlib  # noqa: E402

HANDLERS = """[url.HTMLURLHandler, ZIP.ZIPHandler, gophermap.BuckGophermapHandler,
            mbox.MaildirFolderHandler, mbox.MaildirMessageHandler,
            UMN.UMNDirHandler, html.HTMLFileTitleHandler,
            mbox.MBoxMessageHandler, mbox.MBoxFolderHandler,
            file.FileHandler]"""

# (request line, needs TLS mock)
REQUESTS = [
    ("gopher0", "/%s\r\n", False),
    ("gopher+", "/%s\t$\r\n", False),
    ("http", "GET /%s HTTP/1.0\r\n\r\n", False),
    ("spartan", "localhost /%s 0\r\n", False),
    ("gemini", "gemini://localhost/%s\r\n", True),
]


def request(config, line, tls):
    """Drive the real protocol/handler code in-process; returns (reply, exc)."""
    for attempt in range(50):
        try:
            proto = testutil.get_testing_protocol(line, config=config, use_tls=tls)
            break
        except OSError as e:  # port 64777 busy: somebody else runs tests too
            if "in use" not in str(e):
                raise
            time.sleep(0.2)
    else:
        raise SystemExit(2)
    try:
        proto.handle()
    except Exception:
        # In the real server GopherRequestHandler.handle() logs this and the
        # client gets whatever was written so far (nothing, or half a header).
        return proto.wfile.getvalue().decode(errors="surrogateescape"), traceback.format_exc(limit=-3)
    return proto.wfile.getvalue().decode(errors="surrogateescape"), None





def unicode_path_member():
    """What Info-ZIP's zip writes for a non-ASCII name when the UTF-8 flag is
    not used: a fallback name in the header and the real name in extra field
    0x7075.  Python's zipfile (>= 3.11) puts the real name into .filename."""
    zi = zipfile.ZipInfo("nihon.txt")
    data = struct.pack("<BL", 1, zlib.crc32(b"nihon.txt")) + "\u65e5\u672c.txt".encode("utf-8")
    zi.extra = struct.pack("<HH", 0x7075, len(data)) + data
    return zi, b"middle\n"


def symlink_member():
    zi = zipfile.ZipInfo("mmm-link")
    zi.external_attr = (stat.S_IFLNK | 0o777) << 16
    return zi, b"TARGET-PLACEHOLDER"


def build(path, bad):
    with zipfile.ZipFile(path, "w") as z:
        z.writestr("first.txt", "1\n")
        if bad == "unicodepath":
            z.writestr(*unicode_path_member())
        elif bad == "badcrclink":
            z.writestr(*symlink_member())
        z.writestr("last.txt", "3\n")
    if bad == "badcrclink":
        # flip bytes in the (stored) body of the symlink member only
        with open(path, "rb") as fp:
            data = fp.read()
        data = data.replace(b"TARGET-PLACEHOLDER", b"first.txt\0\0\0\0\0\0\0\0\0", 1)
        with open(path, "wb") as fp:
            fp.write(data)


def main():
    docroot = tempfile.mkdtemp(prefix="c12-zipmember-")
    atexit.register(shutil.rmtree, docroot, True)
    variants = ("unicodepath", "badcrclink")
    for name in variants + ("control",):
        d = os.path.join(docroot, name)
        os.mkdir(d)
        for good in ("aaa.txt", "zzz.txt"):
            with open(os.path.join(d, good), "w") as fp:
                fp.write("hello\n")
        build(os.path.join(d, "arch.zip"), name)
        with zipfile.ZipFile(os.path.join(d, "arch.zip")) as z:
            names = z.namelist()  # the archive itself is well-formed
            assert "first.txt" in names and "last.txt" in names, names

    config = initialization.init_config("conf/pygopherd.conf")
    config.set("pygopherd", "root", docroot)
    config.set("logger", "logmethod", "none")
    config.set("handlers.HandlerMultiplexer", "handlers", HANDLERS)
    config.set("handlers.ZIP.ZIPHandler", "enabled", "true")
    logger.init(config)
    initialization.init_mimetypes(config)

    def check(name):
        bad = []
        for proto, fmt, tls in REQUESTS:
            # the archive's own (root) directory
            reply, exc = request(config, fmt % (name + "/arch.zip"), tls)
            missing = [n for n in ("first.txt", "last.txt")
                       if "/%s/arch.zip/%s" % (name, n) not in reply]
            if exc or missing:
                bad.append(("/%s/arch.zip" % name, proto, missing, exc, reply))
            # the real directory that holds the archive
            reply, exc = request(config, fmt % name, tls)
            missing = [n for n in ("aaa.txt", "arch.zip", "zzz.txt")
                       if "/%s/%s" % (name, n) not in reply]
            if exc or missing:
                bad.append(("/%s" % name, proto, missing, exc, reply))
        return bad

    if check("control"):
        print("DEMO BROKEN: control listings failed", check("control"))
        return 2

    violations = []
    for name in variants:
        violations += check(name)

    if not violations:
        print("OK: every listing succeeded and contains all the other entries")
        return 0
    print("C12 VIOLATED: ONE undigestible member of a ZIP archive takes down the "
          "archive's listing and the listing of the real directory around it")
    for sel, proto, missing, exc, reply in violations:
        print("-- %s over %s: other entries missing from the listing: %s; reply=%r"
              % (sel, proto, missing, reply[:100]))
        if exc:
            print("   exception escaped protocol.handle():", exc.strip().splitlines()[-1])
    return 1


if __name__ == "__main__":
    sys.exit(main())
