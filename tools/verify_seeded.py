#!/venv/bin/python
"""Verify a seeded change delivered by a sub-agent and file it under /verif/seeded/<id>/.

usage: verify_seeded.py <worktree> <n> <seeded-id>
Confirms, in a scratch copy outside /repo and /verif:
  - the patch applies to the current /repo HEAD,
  - the existing test suite still passes with it (only the baseline failure),
  - the demonstration fails with the change and passes without it.
Then copies patch.diff, demo.py, meta.json (augmented with what was run)."""
import json
import os
import shutil
import subprocess
import sys
import tempfile

wt, n, sid = sys.argv[1], sys.argv[2], sys.argv[3]
src = os.path.join(wt, "SEEDED", n)
tmp = tempfile.mkdtemp(prefix="pgseed-", dir="/tmp")
copy = os.path.join(tmp, "repo")
ran = []


def run(cmd, cwd, **kw):
    p = subprocess.run(cmd, cwd=cwd, capture_output=True, text=True, **kw)
    ran.append({"cmd": cmd if isinstance(cmd, str) else " ".join(cmd), "rc": p.returncode})
    return p


try:
    subprocess.run(["git", "-C", "/repo", "worktree", "add", "-q", "--detach", copy, "HEAD"], check=True)
    shutil.copy(os.path.join(src, "demo.py"), os.path.join(tmp, "demo.py"))
    os.makedirs(os.path.join(copy, "SEEDED", n))
    shutil.copy(os.path.join(src, "demo.py"), os.path.join(copy, "SEEDED", n, "demo.py"))
    env = dict(os.environ, PYTHONDONTWRITEBYTECODE="1")
    p0 = run(["/venv/bin/python", "SEEDED/%s/demo.py" % n], copy, env=env, timeout=600)
    ok_clean = p0.returncode == 0
    pa = run(["git", "apply", os.path.join(src, "patch.diff")], copy)
    applies = pa.returncode == 0
    pt = run("/venv/bin/python -m pytest -q -p no:cacheprovider --timeout=900 2>&1 | tail -5", copy, shell=True, env=env,
             timeout=1800)
    tail = pt.stdout
    fails = [l for l in tail.splitlines() if l.startswith("FAILED")]
    if any("test_save_cache" not in l for l in fails):
        # other sessions run the suite at the same time and the tests bind a fixed port: retry once
        import time
        time.sleep(20)
        pt = run("/venv/bin/python -m pytest -q -p no:cacheprovider --timeout=900 2>&1 | tail -5", copy, shell=True,
                 env=env, timeout=1800)
        tail = pt.stdout
        fails = [l for l in tail.splitlines() if l.startswith("FAILED")]
    tests_ok = all("test_save_cache" in l for l in fails) and (" passed" in tail)
    p1 = run(["/venv/bin/python", "SEEDED/%s/demo.py" % n], copy, env=env, timeout=600)
    fails_with = p1.returncode != 0
    verdict = ok_clean and applies and tests_ok and fails_with
    print("%s: demo-clean-passes=%s applies=%s tests-ok=%s demo-fails-with-change=%s => %s" % (
        sid, ok_clean, applies, tests_ok, fails_with, "KEEP" if verdict else "REJECT"))
    if not verdict:
        print(tail[-600:])
        print((p0.stdout + p0.stderr)[-400:])
        print((p1.stdout + p1.stderr)[-400:])
        print(pa.stderr[-400:])
    if verdict:
        dst = os.path.join("/verif/seeded", sid)
        os.makedirs(dst, exist_ok=True)
        for f in ("patch.diff", "demo.py"):
            shutil.copy(os.path.join(src, f), os.path.join(dst, f))
        meta = json.load(open(os.path.join(src, "meta.json")))
        meta["verified_by_me"] = {"baseline": subprocess.run(["git", "-C", "/repo", "log", "--format=%h", "-1"],
                                                              capture_output=True, text=True).stdout.strip(),
                                  "ran": ran, "tests_tail": tail.strip().splitlines()[-1:],
                                  "demo_output_with_change": (p1.stdout + p1.stderr)[-500:]}
        json.dump(meta, open(os.path.join(dst, "meta.json"), "w"), indent=1)
finally:
    subprocess.run(["git", "-C", "/repo", "worktree", "remove", "--force", copy])
    shutil.rmtree(tmp, ignore_errors=True)
