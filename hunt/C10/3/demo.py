#!/usr/bin/env python
"""
C10 hunt, finding 3: the age of a cache entry is counted from the moment the
cache FILE was written (its mtime), not from the moment the directory was
read.  Whatever time passes between the scan (DirHandler.prepare ->
prep_initfiles/prep_entries) and the write (DirHandler.getdirlist ->
savecache) -- a slow disk or NFS server during the scan, a request thread that
is descheduled, a big directory -- is added on top of the configured lifetime.

Real wall clock, cachetime = 4 s, directory /d = {aaa.txt, zzz.txt}:

    t0        request R1 scans /d; while it is scanning (its stat() of
              zzz.txt stalls for 2.5 s) another process deletes aaa.txt
    t0+2.5    R1 finishes the scan and writes the cache entry (still listing
              aaa.txt); mtime of the cache file = t0+2.5
    t0+5.0    request R2: cache file looks 2.5 s old (< 4 s) -> served from
              cache -> lists aaa.txt, which has been gone for 5 s

C10: "every listing reflects the directory as it was at most that lifetime
ago".  At every moment of [t0+1, t0+5] the directory was {zzz.txt}, so R2 must
not list aaa.txt.  Exit 0 iff R2 does not list it.

Run:  cd /tmp/wt4-C10 && /venv/bin/python HUNT/3/demo.py     (takes ~6 s)
"""
import os
import shutil
import sys
import tempfile
import time
from io import BytesIO

ROOT = os.path.dirname(os.path.dirname(os.path.dirname(os.path.abspath(__file__))))
sys.path.insert(0, ROOT)
os.chdir(ROOT)

from pygopherd import initialization, logger, testutil  # noqa: E402
from pygopherd.protocols import ProtocolMultiplexer  # noqa: E402

LIFETIME = 4
STALL = 2.5
R2_AT = 5.0


def request(server, config, line):
    rfile = BytesIO(b"")
    wfile = BytesIO()
    handler = testutil.MockRequestHandler(
        testutil.MockRequest(rfile, wfile), ("10.77.77.77", "7777"), server
    )
    handler.rfile, handler.wfile = rfile, wfile
    protocol = ProtocolMultiplexer.getProtocol(
        line, server, handler, rfile, wfile, config
    )
    protocol.handle()
    return wfile.getvalue().decode(errors="surrogateescape")


def main():
    tmp = tempfile.mkdtemp(prefix="c10-h3-")
    real_stat = os.stat
    try:
        os.makedirs(os.path.join(tmp, "d"))
        for name in ("aaa.txt", "zzz.txt"):
            with open(os.path.join(tmp, "d", name), "w") as fp:
                fp.write(name + "\n")

        config = initialization.init_config("conf/pygopherd.conf")
        config.set("pygopherd", "root", tmp)
        config.set("pygopherd", "servername", "gopher.example")
        config.set("logger", "logmethod", "none")
        config.set("handlers.dir.DirHandler", "cachetime", str(LIFETIME))
        logger.init(config)
        initialization.init_mimetypes(config)
        server = None
        for _ in range(50):
            try:
                server = testutil.get_testing_server(config)
                break
            except OSError:
                time.sleep(0.2)
        assert server is not None, "could not bind the test port"

        state = {"t_del": None}
        victim = os.path.join(tmp, "d", "aaa.txt")
        slow = os.fsencode(os.path.join(tmp, "d", "zzz.txt"))

        def slow_stat(path, *a, **kw):
            # Fault: the file system answers one stat() slowly, and meanwhile
            # somebody else removes a file that the scan has already seen.
            if state["t_del"] is None and os.fsencode(path) == slow:
                os.unlink(victim)
                state["t_del"] = time.time()
                time.sleep(STALL)
            return real_stat(path, *a, **kw)

        os.stat = slow_stat
        r1 = request(server, config, "/d\r\n")
        os.stat = real_stat
        t_del = state["t_del"]
        assert t_del is not None, "the stall was never reached"
        t_written = time.time()
        cache_mtime = real_stat(os.path.join(tmp, "d", ".cache.pygopherd.dir")).st_mtime

        time.sleep(max(0.0, t_del + R2_AT - time.time()))
        t_r2 = time.time()
        r2 = request(server, config, "/d\r\n")

        print("cachetime (lifetime)            : %d s" % LIFETIME)
        print("aaa.txt deleted at              : t0")
        print("R1 answered / cache written at  : t0+%.2f s (cache mtime t0+%.2f)"
              % (t_written - t_del, cache_mtime - t_del))
        print("R1 listing:")
        for ln in r1.splitlines():
            print("     " + ln)
        print("R2 asked at                     : t0+%.2f s" % (t_r2 - t_del))
        print("R2 listing:")
        for ln in r2.splitlines():
            print("     " + ln)
        print("directory on disk now           : %s" % sorted(
            n for n in os.listdir(os.path.join(tmp, "d")) if not n.startswith(".")))

        if "/d/aaa.txt" in r2 and (t_r2 - t_del) > LIFETIME:
            print(
                "\nFAIL: R2 lists /d/aaa.txt, which was deleted %.2f s earlier -- more "
                "than the %d s lifetime.  The entry's age was counted from the write "
                "of the cache file, %.2f s after the directory had been read."
                % (t_r2 - t_del, LIFETIME, t_written - t_del)
            )
            return 1
        print("PASS: R2 reflects the directory as it was at most %d s ago" % LIFETIME)
        return 0
    finally:
        os.stat = real_stat
        shutil.rmtree(tmp, ignore_errors=True)


if __name__ == "__main__":
    sys.exit(main())
