import sys, os, json, shutil
sys.path.insert(0,'/verif')
from simkit import selftest
mod=sys.argv[1]; n=int(sys.argv[2]); rounds=int(sys.argv[3])
idx=list(range(n))
for rnd in range(rounds):
    for d in ("/tmp/dhA","/tmp/dhB"):
        shutil.rmtree(d, ignore_errors=True)
    os.environ["VERIF_DUMP_HIST"]="/tmp/dhA"
    a=selftest._pool_digests(mod, idx, 5)
    os.environ["VERIF_DUMP_HIST"]="/tmp/dhB"
    b=selftest._pool_digests(mod, idx, 11, reverse=True)
    diffs=[i for i in idx if a[i]!=b[i]]
    print("round",rnd,"mismatches",diffs, flush=True)
    if diffs:
        i=diffs[0]
        ja=json.load(open("/tmp/dhA/%s.json"%a[i])); jb=json.load(open("/tmp/dhB/%s.json"%b[i]))
        for part in range(len(ja['hist'])):
            x,y=ja['hist'][part],jb['hist'][part]
            k=next((k for k,(p,q) in enumerate(zip(x,y)) if p!=q),None)
            if k is not None or len(x)!=len(y):
                k=k if k is not None else min(len(x),len(y))
                print("part",part,"first diff at",k,"of",len(x),len(y))
                for e in x[max(0,k-8):k+6]: print("  A",str(e)[:160])
                for e in y[max(0,k-8):k+6]: print("  B",str(e)[:160])
                break
        break
