"""C12 demo 4: one unservable message file (dangling symlink, socket or FIFO) in
the new/ sub-directory of a Maildir takes down the whole listing of the Maildir
folder.

Run as:  cd /tmp/wt4-C12 && /venv/bin/python HUNT/4/demo.py
Exits 0 if every listing succeeds and contains every other entry.
"""
import io
import os
import shutil
import sys
import tempfile
import threading
import time
import warnings

ROOT = os.path.dirname(os.path.dirname(os.path.dirname(os.path.abspath(__file__))))
sys.path.insert(0, ROOT)
os.chdir(ROOT)
warnings.simplefilter("ignore")

from pygopherd import initialization, logger, testutil  # noqa: E402
from pygopherd.protocols import ProtocolMultiplexer  # noqa: E402
import pygopherd.handlers.HandlerMultiplexer as HM  # noqa: E402
import pygopherd.handlers.base as hbase  # noqa: E402

TIMEOUT = 2.0


class FakeServer:
    server_name = "localhost"
    server_port = 70


class FakeRequestHandler:
    def __init__(self, tls, rfile, wfile):
        self.client_address = ("10.1.1.1", 1234)
        cls = testutil.MockSSLRequest if tls else testutil.MockRequest
        self.request = cls(rfile, wfile)
        self.rfile, self.wfile = rfile, wfile


def make_config(root, handlers=None, cachetime=None):
    config = initialization.init_config("conf/pygopherd.conf")
    config.set("pygopherd", "root", root)
    config.set("logger", "logmethod", "none")
    if handlers:
        config.set("handlers.HandlerMultiplexer", "handlers", handlers)
    if cachetime is not None:
        config.set("handlers.dir.DirHandler", "cachetime", str(cachetime))
    logger.init(config)
    HM.handlers = None
    HM.rootpath = None
    hbase.rootpath = None
    return config


def do_request(config, line, tls=False):
    """Drive the real protocol + handler code in-process.  Returns
    (status, output) where status is 'ok', 'hang' or 'exception: ...'."""
    rfile = io.BytesIO(line.encode())
    wfile = io.BytesIO()
    server = FakeServer()
    server.config = config
    rh = FakeRequestHandler(tls, rfile, wfile)
    proto = ProtocolMultiplexer.getProtocol(
        rfile.readline().decode(), server, rh, rfile, wfile, config
    )
    result = {}

    def run():
        try:
            proto.handle()
            result["status"] = "ok"
        except BaseException as e:  # noqa
            result["status"] = "exception: %r" % (e,)

    t = threading.Thread(target=run, daemon=True)
    t.start()
    t.join(TIMEOUT)
    if t.is_alive():
        return "hang (no answer after %.0f s)" % TIMEOUT, wfile.getvalue()
    return result["status"], wfile.getvalue()


REQUESTS = [
    ("gopher", "/d\r\n", False),
    ("gopher+", "/d\t$\r\n", False),
    ("http", "GET /d HTTP/1.0\r\n\r\n", False),
    ("wap", "GET /wap/d HTTP/1.0\r\n\r\n", False),
    ("gemini", "gemini://localhost/d\r\n", True),
    ("spartan", "localhost /d 0\r\n", False),
]
import socket

OTHERS = ["msg1", "msg2", "msg3"]


def build_tree(kind):
    root = tempfile.mkdtemp(prefix="c12-4-")
    md = os.path.join(root, "md")
    for sub in ("new", "cur", "tmp"):
        os.makedirs(os.path.join(md, sub))
    for i, sub, suffix in ((1, "new", ""), (2, "cur", ":2,S"), (3, "new", "")):
        with open(os.path.join(md, sub, "100%d.host%s" % (i, suffix)), "w") as fp:
            fp.write("From: a@example.org\nSubject: msg%d\n\nbody %d\n" % (i, i))
    victim = os.path.join(md, "new", "1002x.host")
    if kind == "dangling symlink":
        os.symlink("/nonexistent/target", victim)
    elif kind == "FIFO":
        os.mkfifo(victim)
    elif kind == "socket":
        s = socket.socket(socket.AF_UNIX)
        s.bind(victim)
        s.close()
    return root


def main():
    failures = []
    roots = []
    mime_done = False
    for kind in (None, "dangling symlink", "socket", "FIFO"):
        # every protocol for the dangling link, plain gopher for the others
        reqs = REQUESTS if kind in (None, "dangling symlink") else REQUESTS[:1]
        for proto, line, tls in reqs:
            line = line.replace("/d", "/md")
            root = build_tree(kind)
            roots.append(root)
            config = make_config(root)  # default handler list
            if not mime_done:
                initialization.init_mimetypes(config)
                mime_done = True
            status, out = do_request(config, line, tls)
            missing = [s for s in OTHERS if s.encode() not in out]
            good = status == "ok" and not missing
            if kind is None:
                assert good, ("control failed", proto, status, out)
            elif not good:
                failures.append((kind, proto))
                print(
                    "VIOLATION [md/new/1002x.host is a %s] %s request %r: %s; "
                    "messages missing from the listing: %s; bytes sent: %r"
                    % (kind, proto, line, status, missing, out[:70])
                )
    if failures:
        print()
        print(
            "%d listing(s) of the Maildir folder /md failed although only one "
            "message file was unservable; the control Maildir without it lists "
            "msg1, msg2 and msg3 on every protocol." % len(failures)
        )
        sys.stdout.flush()
        for root in roots:
            shutil.rmtree(root, ignore_errors=True)
        os._exit(1)
    for root in roots:
        shutil.rmtree(root, ignore_errors=True)
    print("OK: the unservable message never took its folder down")
    sys.exit(0)


main()
