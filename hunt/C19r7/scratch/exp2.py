import os, sys, tempfile, itertools, subprocess, json
sys.path.insert(0, "/tmp/wt7-C19"); os.chdir("/tmp/wt7-C19")
CHILD = r'''
import os, sys, json
sys.path.insert(0, "/tmp/wt7-C19"); os.chdir(sys.argv[2])
from pygopherd import initialization
conf = sys.argv[1]
try:
    s = initialization.initialize(conf)
except BaseException as e:
    print(json.dumps({"abort": repr(e)})); sys.exit(0)
st = os.stat("/")
print(json.dumps({"resuid": os.getresuid(), "resgid": os.getresgid(), "groups": os.getgroups(),
  "cwd": os.getcwd(), "rootino": st.st_ino, "root": s.config.get("pygopherd","root"), "ls": os.listdir("/")}))
'''
base = open("conf/pygopherd.conf").read()
base = base.replace("mimetypes = ./conf", "mimetypes = /tmp/wt7-C19/conf")
def run(label, edits, cwd="/tmp/wt7-C19", rootval=None):
    d = tempfile.mkdtemp(); os.chmod(d, 0o755); open(d+"/MARK","w").close()
    conf = base.replace("root = /var/gopher", "root = %s" % (rootval(d) if rootval else d))
    conf = conf.replace("port = 70", "port = 0").replace("logmethod = syslog", "logmethod = none")
    conf = conf.replace("pidfile = /var/run/pygopherd/pygopherd.pid","")
    for a,b in edits: 
        assert a in conf, a
        conf = conf.replace(a,b)
    p = os.path.join(tempfile.mkdtemp(), "c.conf"); open(p,"w").write(conf)
    r = subprocess.run([sys.executable, "-c", CHILD, p, cwd(d) if callable(cwd) else cwd], capture_output=True, text=True, env=dict(os.environ, PYTHONWARNINGS="ignore"),
        preexec_fn=lambda: os.setgroups([1,2,3]))
    print(label, os.stat(d).st_ino, r.stdout.strip()[-400:], r.stderr.strip()[-300:])
U=("#setuid = gopher","setuid = nobody"); G=("#setgid = gopher","setgid = nogroup")
run("absent usechroot", [("usechroot = yes",""),U,G])
run("relative root", [U,G], cwd=lambda d: os.path.dirname(d), rootval=lambda d: os.path.basename(d))
run("dot root", [U,G], cwd=lambda d: d, rootval=lambda d: ".")
run("trailing slash", [U,G], rootval=lambda d: d+"/")
run("usechroot=1", [("usechroot = yes","usechroot = 1"),U,G])
run("usechroot=True", [("usechroot = yes","usechroot = True"),U,G])
run("usechroot=on", [("usechroot = yes","usechroot = on"),U,G])
run("setuid=root", [("#setuid = gopher","setuid = root"),G])
run("detach", [("detach = no","detach = yes"),U,G])
