#!/usr/bin/env python
"""
C10 hunt, finding 1: the directory cache is not transparent when the same
physical directory is reachable under two selectors (a symlink to a directory).

The cache file lives inside the physical directory, but the pickled entries
carry absolute selectors built from the selector of the request that wrote it.
Whoever lists the directory next, under the *other* selector, is served the
first requester's selectors.

The content tree is STATIC for the whole run, so by C10 ("the directory cache
is transparent"; "with lifetime 0 every listing reflects the current
directory") the listings served by a server with cachetime=180 must be
byte-for-byte the listings served by a server with cachetime=0 over an
identical tree.  That is what is checked.  Exit 0 iff they are identical.

Run:  cd /tmp/wt4-C10 && /venv/bin/python HUNT/1/demo.py
"""
import difflib
import json
import os
import shutil
import subprocess
import sys
import tempfile
import time

ROOT = os.path.dirname(os.path.dirname(os.path.dirname(os.path.abspath(__file__))))
sys.path.insert(0, ROOT)
os.chdir(ROOT)

REQUESTS = [
    ("gopher", "/releases/v2"),
    ("gopher", "/latest"),
    ("http", "/latest"),
    ("gopher", "/releases/v2"),
]


def build_tree(root):
    os.makedirs(os.path.join(root, "releases", "v2"))
    for name, body in (("README.txt", "v2 readme\n"), ("notes.txt", "v2 notes\n")):
        with open(os.path.join(root, "releases", "v2", name), "w") as fp:
            fp.write(body)
    # The classic "latest -> releases/v2" alias.
    os.symlink(os.path.join("releases", "v2"), os.path.join(root, "latest"))


def serve(root, cachetime):
    """Runs inside a child process: one 'server' with a fixed configuration."""
    from io import BytesIO

    from pygopherd import initialization, logger, testutil
    from pygopherd.protocols import ProtocolMultiplexer

    config = initialization.init_config("conf/pygopherd.conf")
    config.set("pygopherd", "root", root)
    config.set("pygopherd", "servername", "gopher.example")
    config.set("logger", "logmethod", "none")
    config.set("handlers.dir.DirHandler", "cachetime", str(cachetime))
    logger.init(config)
    initialization.init_mimetypes(config)

    server = None
    for _ in range(50):
        try:
            server = testutil.get_testing_server(config)
            break
        except OSError:
            time.sleep(0.2)
    assert server is not None, "could not bind the test port"

    out = []
    for proto, selector in REQUESTS:
        if proto == "gopher":
            line = selector + "\r\n"
        else:
            line = "GET %s HTTP/1.0\r\n" % selector
        rfile = BytesIO(b"\r\n")
        wfile = BytesIO()
        handler = testutil.MockRequestHandler(
            testutil.MockRequest(rfile, wfile), ("10.77.77.77", "7777"), server
        )
        handler.rfile, handler.wfile = rfile, wfile
        protocol = ProtocolMultiplexer.getProtocol(
            line, server, handler, rfile, wfile, config
        )
        protocol.handle()
        out.append(wfile.getvalue().decode(errors="surrogateescape"))
    return out


def run_server(root, cachetime):
    res = subprocess.run(
        [sys.executable, os.path.abspath(__file__), "--serve", root, str(cachetime)],
        capture_output=True,
        text=True,
        cwd=ROOT,
    )
    if res.returncode != 0:
        print(res.stdout)
        print(res.stderr)
        raise SystemExit("child server failed")
    return json.loads(res.stdout.strip().splitlines()[-1])


def body(resp):
    # Strip the HTTP header (Last-Modified is the directory mtime, which
    # differs between the two copies of the tree) -- compare listings only.
    if resp.startswith("HTTP/"):
        return resp.split("\r\n\r\n", 1)[1]
    return resp


def main():
    tmp = tempfile.mkdtemp(prefix="c10-h1-")
    try:
        root_ref = os.path.join(tmp, "ref")
        root_sut = os.path.join(tmp, "sut")
        build_tree(root_ref)
        build_tree(root_sut)

        reference = run_server(root_ref, 0)  # lifetime 0: always the truth
        observed = run_server(root_sut, 180)  # same static tree, caching on

        bad = 0
        for (proto, selector), ref, obs in zip(REQUESTS, reference, observed):
            if body(ref) == body(obs):
                print("ok      %-6s %s" % (proto, selector))
                continue
            bad += 1
            print("MISMATCH %-6s %s" % (proto, selector))
            print("  diff  (-) cachetime=0, the current directory   (+) cachetime=180, tree never changed")
            for ln in difflib.unified_diff(
                body(ref).splitlines(), body(obs).splitlines(), lineterm="", n=0
            ):
                if not ln.startswith(("---", "+++", "@@")):
                    print("     " + ln)
        if bad:
            print(
                "\nFAIL: %d listing(s) of a static tree differ between cachetime=0 "
                "and cachetime=180: the listing of one selector was served from a "
                "cache entry written for another selector of the same directory."
                % bad
            )
            return 1
        print("PASS: caching was transparent")
        return 0
    finally:
        shutil.rmtree(tmp, ignore_errors=True)


if __name__ == "__main__":
    if len(sys.argv) >= 4 and sys.argv[1] == "--serve":
        print(json.dumps(serve(sys.argv[2], int(sys.argv[3]))))
        sys.exit(0)
    sys.exit(main())
