#!/usr/bin/env python
"""C03 hunt #1: a gophermap with a blank info line written in menu syntax
("i<TAB><TAB>null.host<TAB>1") makes every request for that directory die
with an unhandled IndexError: the client gets zero bytes, in every protocol.

Default handler list and default protocol list of conf/pygopherd.conf.
The real server code is driven in-process over a loopback socket.
Exits 0 iff every request got one well-formed answer.
"""
import os
import shutil
import socket
import sys
import tempfile
import threading
import warnings

warnings.filterwarnings("ignore", category=SyntaxWarning)  # vendored simpletal

ROOT = os.path.dirname(os.path.dirname(os.path.dirname(os.path.abspath(__file__))))
sys.path.insert(0, ROOT)
os.chdir(ROOT)

from pygopherd import GopherExceptions, initialization, logger  # noqa: E402
from pygopherd.server import GopherRequestHandler, ThreadingTCPServer  # noqa: E402

GOPHERMAP = (
    "Welcome to my gopher hole\n"  # plain text -> info line
    "i\t\tnull.host\t1\n"  # blank info line, spelled the way a raw menu spells it
    "0About this server\tabout.txt\n"
    "1Sub directory\t/sub\n"
)


def start(docroot):
    config = initialization.init_config("conf/pygopherd.conf")  # defaults
    config.set("pygopherd", "root", docroot)
    config.set("pygopherd", "timeout", "5")
    config.set("logger", "logmethod", "none")
    logger.init(config)
    log_lines = []
    logger.log = log_lines.append
    GopherExceptions.init(False)  # keep stderr quiet; errors are still logged
    initialization.init_mimetypes(config)
    server = ThreadingTCPServer(config, ("127.0.0.1", 0), GopherRequestHandler)
    server.daemon_threads = True
    threading.Thread(target=server.serve_forever, daemon=True).start()
    return server, log_lines


def ask(server, data):
    with socket.create_connection(server.server_address[:2], timeout=10) as s:
        s.sendall(data)
        s.shutdown(socket.SHUT_WR)
        out = b""
        while True:
            chunk = s.recv(65536)
            if not chunk:
                return out
            out += chunk


def gopher_menu_ok(resp):
    """A Gopher menu: >= 1 line, each CRLF-terminated: type+name TAB sel TAB host TAB port."""
    if not resp or not resp.endswith(b"\r\n"):
        return False
    for line in resp[:-2].split(b"\r\n"):
        fields = line.split(b"\t")
        if len(line) < 1 or len(fields) < 4 or not fields[3].isdigit():
            return False
    return True


def http_ok(resp):
    head, sep, _ = resp.partition(b"\r\n\r\n")
    return bool(sep) and head.startswith(b"HTTP/1.0 ") and resp.count(b"HTTP/1.0 ") == 1


def spartan_ok(resp):
    line, sep, _ = resp.partition(b"\r\n")
    return bool(sep) and line[:1] in b"2345" and line[1:2] == b" "


def gopherplus_ok(resp):
    line, sep, _ = resp.partition(b"\r\n")
    return bool(sep) and line[:1] in b"+-" and line[1:].lstrip(b"-").isdigit()


def main():
    docroot = tempfile.mkdtemp(prefix="c03-hunt1-")
    try:
        os.mkdir(os.path.join(docroot, "hole"))
        os.mkdir(os.path.join(docroot, "sub"))
        with open(os.path.join(docroot, "hole", "gophermap"), "w") as f:
            f.write(GOPHERMAP)
        with open(os.path.join(docroot, "hole", "about.txt"), "w") as f:
            f.write("about\n")

        server, log_lines = start(docroot)
        cases = [
            ("Gopher", b"/hole\r\n", gopher_menu_ok),
            ("Gopher+", b"/hole\t$\r\n", gopherplus_ok),
            ("HTTP", b"GET /hole HTTP/1.0\r\n\r\n", http_ok),
            ("Spartan", b"localhost /hole 0\r\n", spartan_ok),
        ]
        failures = 0
        for name, request, check in cases:
            before = len(log_lines)
            resp = ask(server, request)
            errors = [m for m in log_lines[before:] if "EXCEPTION" in m]
            good = check(resp) and not errors
            print("%-8s request %r" % (name, request))
            print("         response (%d bytes): %r" % (len(resp), resp[:100]))
            for m in errors:
                print("         server log: %s" % m)
            print("         -> %s" % ("ok" if good else "VIOLATION"))
            failures += not good
        server.shutdown()
        server.server_close()
    finally:
        shutil.rmtree(docroot, ignore_errors=True)

    if failures:
        print(
            "\nC03 violated: %d of %d requests for a directory whose gophermap "
            "contains the line 'i<TAB><TAB>null.host<TAB>1' got no well-formed "
            "response (unhandled internal error)." % (failures, len(cases))
        )
        return 1
    print("\nall requests answered with one well-formed response")
    return 0


if __name__ == "__main__":
    sys.exit(main())
