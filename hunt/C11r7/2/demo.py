#!/venv/bin/python
"""C11 -- a reader racing the writer of the ZIP index cache.

The ZIP index cache (".cache.pygopherd.zip3.<archive>", a shelve data base) is
written in place, one record after the other.  This program runs one request
that writes the cache (the writer) and, at every point between two of the
writer's records, a second request for the same archive on another thread
(the reader), the way two workers of the threading or forking server meet.

The property says the reader gets the complete listing at every such point
(and so does the writer, and so does everybody who comes later).
Exit status 0 if so, 1 otherwise.

As in HUNT/1 a file exists under the cache's own name (0 bytes long here), so
that the server opens the cache it wrote instead of rebuilding it each time.
"""
import glob
import os
import shelve
import sys
import tempfile
import threading
import time
import warnings
import zipfile
from io import BytesIO

ROOT = os.path.dirname(os.path.dirname(os.path.dirname(os.path.abspath(__file__))))
sys.path.insert(0, ROOT)
os.chdir(ROOT)
warnings.simplefilter("ignore")

from pygopherd import GopherExceptions, initialization, logger, testutil  # noqa

docroot = tempfile.mkdtemp(prefix="c11zip")
with zipfile.ZipFile(docroot + "/a.zip", "w") as z:
    z.writestr("one.txt", "1\n")
    z.writestr("two.txt", "2\n")
    z.writestr("d/three.txt", "3\n")
    z.writestr("d/e/four.txt", "4\n")
os.utime(docroot + "/a.zip", (1000000000, 1000000000))

config = initialization.init_config("conf/pygopherd.conf")
config.set("pygopherd", "root", docroot)
config.set("logger", "logmethod", "none")
config.set(
    "handlers.HandlerMultiplexer",
    "handlers",
    "[ZIP.ZIPHandler, UMN.UMNDirHandler, file.FileHandler]",
)
config.set("handlers.ZIP.ZIPHandler", "enabled", "true")
logger.init(config)
GopherExceptions.init(False)
initialization.init_mimetypes(config)
for attempt in range(20):
    try:
        server = testutil.get_testing_server(config)
        break
    except OSError:
        time.sleep(0.5)


class Wfile(BytesIO):
    def close(self):
        pass


def ask(line: bytes) -> bytes:
    rfile, wfile = BytesIO(line), Wfile()
    h = testutil.MockRequestHandler(
        testutil.MockRequest(rfile, wfile), ("10.0.0.1", "7777"), server
    )
    h.rfile, h.wfile = rfile, wfile
    try:
        h.handle()
    except Exception as e:
        return b"<<exception %r>>" % repr(e).encode()
    return wfile.getvalue()


REQUEST = b"/a.zip\r\n"
expected = ask(REQUEST)  # nothing to read yet: built from the archive
assert [l.split(b"\t")[1] for l in expected.split(b"\r\n") if l] == [
    b"/a.zip/d",
    b"/a.zip/one.txt",
    b"/a.zip/two.txt",
], expected

own = docroot + "/.cache.pygopherd.zip3.a.zip"


def reset():
    for p in glob.glob(docroot + "/.cache*"):
        os.unlink(p)
    open(own, "wb").close()


# The schedule: after the writer has stored its k-th record, the reader runs
# to completion on its own thread; then the writer goes on.
real_setitem = shelve.Shelf.__setitem__
state = {}


def scheduled_setitem(self, key, value):
    real_setitem(self, key, value)
    if threading.current_thread() is not state.get("writer"):
        return
    state["stored"] += 1
    if state["stored"] == state["k"]:
        out = {}
        t = threading.Thread(target=lambda: out.setdefault("r", ask(REQUEST)))
        t.start()
        t.join()
        state["reader"] = out["r"]


shelve.Shelf.__setitem__ = scheduled_setitem

# how many records does the writer store?
reset()
state.update(writer=threading.current_thread(), stored=0, k=-1)
assert ask(REQUEST) == expected
records = state["stored"]
print("the writer stores %d records" % records)
assert records > 1

failures = []
for k in range(1, records + 1):
    reset()
    state.update(writer=threading.current_thread(), stored=0, k=k, reader=None)
    writer_out = ask(REQUEST)
    state["writer"] = None
    later = ask(REQUEST)
    for who, out in (
        ("reader (between record %d and %d)" % (k, k + 1), state["reader"]),
        ("writer", writer_out),
        ("next request, nobody else running", later),
    ):
        if out != expected:
            failures.append((k, who, out))

for k, who, out in failures:
    print("reader scheduled after record %d of %d -- %s got:" % (k, records, who))
    print("      %r" % out)
    print("   expected")
    print("      %r" % expected)

if failures:
    print()
    print("FAIL: C11 violated -- a request that meets the writer of the ZIP index")
    print("cache half-way gets an error, an empty reply or a partial listing.")
    sys.exit(1)
print("OK")
sys.exit(0)
