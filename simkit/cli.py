"""CLI: ./check <id|selftest-*> [--tier quick|thorough] [--replay FILE]"""
import os
import sys

VERIF = os.path.dirname(os.path.dirname(os.path.abspath(__file__)))


def _reexec():
    want = {"PYTHONHASHSEED": os.environ.get("VERIF_HASHSEED", "0"), "TZ": "UTC", "LC_ALL": "C.UTF-8",
            "PYTHONDONTWRITEBYTECODE": "1", "PYTHONWARNINGS": "ignore"}
    if os.environ.get("VERIF_NO_REEXEC") == "1" and all(
            os.environ.get(k) == v for k, v in want.items()):
        return
    if all(os.environ.get(k) == v for k, v in want.items()):
        return
    env = dict(os.environ)
    env.update(want)
    os.execve(sys.executable, [sys.executable] + sys.argv, env)


def main():
    _reexec()
    sys.dont_write_bytecode = True
    sys.path.insert(0, VERIF)
    args = sys.argv[1:]
    if not args:
        print(__doc__)
        return 2
    name = args[0]
    if name.startswith("selftest"):
        from simkit import selftest
        return selftest.main(name, args[1:])
    tier = os.environ.get("VERIF_TIER", "") or "quick"
    replay = None
    i = 1
    while i < len(args):
        if args[i] == "--tier":
            tier = args[i + 1]
            i += 2
        elif args[i] == "--replay":
            replay = args[i + 1]
            i += 2
        elif args[i] == "--runs":
            os.environ["VERIF_RUNS"] = args[i + 1]
            i += 2
        elif args[i] == "--jobs":
            os.environ["VERIF_JOBS"] = args[i + 1]
            i += 2
        elif args[i] == "--seed":
            os.environ["VERIF_SEED"] = args[i + 1]
            i += 2
        else:
            print("unknown argument", args[i])
            return 2
    if tier not in ("quick", "thorough"):
        print("bad tier", tier)
        return 2
    from simkit import runner
    if name.startswith("selftest"):
        from simkit import selftest
        return selftest.main(name, args[1:])
    modname = name.lower()
    if replay:
        return runner.replay_file(modname, replay)
    return runner.run_check(modname, tier)


if __name__ == "__main__":
    try:
        rc = main()
    except SystemExit:
        raise
    except BaseException:
        import traceback
        traceback.print_exc()
        print("HARNESS-ERROR: uncaught exception in the checker")
        rc = 2
    sys.stdout.flush()
    sys.exit(rc)
