#!/usr/bin/env python
"""C03 hunt, finding 5.

Default configuration and handler list.  The HTTP, WAP, Gemini and Spartan
renderers decide with   re.match("(/|)URL:", selector)   that an entry is a
URL link and then take   re.match("(/|)URL:(.+)$", selector).group(2) .
For a selector that is exactly "URL:" or "/URL:" the second match is None:
AttributeError in the middle of writedir(), i.e. after the status line and
part of the menu have been sent.  The menu is cut off at that entry and the
error is not handled (it ends in server.py's catch-all).

Such an entry comes from ordinary content:
  * a file called "URL:" in the root directory (selector "/URL:"),
  * a gophermap line   hHome page<TAB>URL:   (URL still to be filled in),
  * a link file with   Path=URL:

Plain Gopher and Gopher+ list the same directories without trouble.
Exit status 0 iff every listing is complete (every entry of the Gopher menu
is there, the HTML document is closed) and no internal error is logged.
"""
import builtins
import contextlib
import errno
import io
import os
import re
import shutil
import sys
import tempfile
import warnings

warnings.simplefilter("ignore")
ROOT = os.path.dirname(os.path.dirname(os.path.dirname(os.path.abspath(__file__))))
sys.path.insert(0, ROOT)
os.chdir(ROOT)

from pygopherd import GopherExceptions, gopherentry, initialization, logger, testutil  # noqa: E402
from pygopherd.handlers import HandlerMultiplexer, UMN  # noqa: E402
from pygopherd.handlers import base as hbase  # noqa: E402

LOG = []


def setup(root):
    config = initialization.init_config("conf/pygopherd.conf")
    config.set("pygopherd", "root", root)
    HandlerMultiplexer.handlers = None
    HandlerMultiplexer.rootpath = None
    hbase.rootpath = None
    gopherentry.mapping = None
    gopherentry.eaexts = None
    UMN.extstrip = None
    logger.log = LOG.append
    initialization.init_mimetypes(config)
    GopherExceptions.tracebacks = 0
    return config


class FakeServer:
    server_name = "localhost"
    server_port = 70


def request(config, data, tls=False):
    rfile = io.BytesIO(data.encode("utf-8", "surrogateescape"))
    wfile = io.BytesIO()
    wfile.close = lambda: None
    server = FakeServer()
    server.config = config
    sock = (testutil.MockSSLRequest if tls else testutil.MockRequest)(rfile, wfile)
    handler = testutil.MockRequestHandler(sock, ("10.77.77.77", "7777"), server)
    del LOG[:]
    stderr = io.StringIO()
    with contextlib.redirect_stderr(stderr):
        handler.handle()
    return wfile.getvalue(), list(LOG), stderr.getvalue()


def main():
    root = tempfile.mkdtemp(prefix="c03-5-")
    try:
        for name in ("about.txt", "URL:", "zebra.txt"):
            with open(os.path.join(root, name), "w") as fp:
                fp.write("text\n")
        os.mkdir(os.path.join(root, "map"))
        with open(os.path.join(root, "map", "gophermap"), "w") as fp:
            fp.write("Welcome\n0First\tfirst.txt\nhHome page\tURL:\n0Last document\tlast.txt\n")
        for name in ("first.txt", "last.txt"):
            with open(os.path.join(root, "map", name), "w") as fp:
                fp.write("text\n")
        config = setup(root)

        failures = 0
        for sel, must_have in (("/", [b"about", b"zebra"]), ("/map", [b"First", b"Last document"])):
            out, log, err = request(config, sel + "\r\n")
            print("gopher menu of %r: %r" % (sel, out))
            probes = [
                ("gopher+", sel + "\t$\r\n", False),
                ("http", "GET %s HTTP/1.0\r\n\r\n" % sel, False),
                ("wap", "GET /wap%s HTTP/1.0\r\n\r\n" % sel, False),
                ("spartan", "localhost %s 0\r\n" % sel, False),
                ("gemini", "gemini://localhost%s\r\n" % sel, True),
            ]
            for name, req, tls in probes:
                out, log, err = request(config, req, tls)
                problems = []
                errs = [x for x in log if "EXCEPTION" in x and "EXCEPTION FileNotFound" not in x]
                if errs:
                    problems.append("unhandled internal error: " + errs[0].split("EXCEPTION ", 1)[1])
                missing = [m.decode() for m in must_have if m not in out]
                if missing:
                    problems.append("listing is cut off: entries %r are missing; the answer ends with %r"
                                    % (missing, out[-70:]))
                if name == "http" and not out.rstrip().endswith(b"</HTML>"):
                    problems.append("HTML document is not closed")
                if name == "wap" and not out.rstrip().endswith(b"</wml>"):
                    problems.append("WML document is not closed")
                if problems:
                    failures += 1
                    print("VIOLATION [%s] %r" % (name, req))
                    for p in problems:
                        print("    " + p)
                else:
                    print("ok        [%s] %r (%d bytes)" % (name, req, len(out)))
        return 1 if failures else 0
    finally:
        shutil.rmtree(root, ignore_errors=True)


if __name__ == "__main__":
    sys.exit(main())
