#!/usr/bin/env python
"""C03 hunt, finding 1.

Listing the "new" (or "cur") sub-directory of a Maildir is a read-only
request.  The directory handler answers it and drops its cache file
(.cache.pygopherd.dir) into that sub-directory.  From then on the Maildir
handler counts the cache file as a mail message: the request for the Maildir
itself, which was answered with a two-line menu before, is now answered with
NOTHING (uncaught NotImplementedError), in every protocol; and the message
selector <folder>|/MAILDIR-MESSAGE/3, which did not exist, now returns the
server's pickled cache.

Default configuration, default handler list.  Exit status 0 iff the property
holds (same, well-formed answer before and after the read-only requests).
"""
import io
import os
import shutil
import sys
import tempfile
import warnings

warnings.simplefilter("ignore")
ROOT = os.path.dirname(os.path.dirname(os.path.dirname(os.path.abspath(__file__))))
sys.path.insert(0, ROOT)
os.chdir(ROOT)

from pygopherd import GopherExceptions, gopherentry, initialization, logger, testutil  # noqa: E402
from pygopherd.handlers import HandlerMultiplexer, UMN  # noqa: E402
from pygopherd.handlers import base as hbase  # noqa: E402

LOG = []


def setup(root):
    config = initialization.init_config("conf/pygopherd.conf")
    config.set("pygopherd", "root", root)
    HandlerMultiplexer.handlers = None
    HandlerMultiplexer.rootpath = None
    hbase.rootpath = None
    gopherentry.mapping = None
    gopherentry.eaexts = None
    UMN.extstrip = None
    logger.log = LOG.append
    initialization.init_mimetypes(config)
    GopherExceptions.tracebacks = 0
    return config


class FakeServer:
    server_name = "localhost"
    server_port = 70


def request(config, data, tls=False):
    """Serve one request through the real GopherRequestHandler.handle();
    returns (bytes sent to the client, log lines)."""
    rfile = io.BytesIO(data.encode("utf-8", "surrogateescape"))
    wfile = io.BytesIO()
    wfile.close = lambda: None
    server = FakeServer()
    server.config = config
    sock = (testutil.MockSSLRequest if tls else testutil.MockRequest)(rfile, wfile)
    handler = testutil.MockRequestHandler(sock, ("10.77.77.77", "7777"), server)
    del LOG[:]
    handler.handle()
    return wfile.getvalue(), list(LOG)


def internal_errors(log):
    return [x for x in log if "EXCEPTION" in x and "EXCEPTION FileNotFound" not in x]


def main():
    root = tempfile.mkdtemp(prefix="c03-1-")
    try:
        for sub in ("new", "cur", "tmp"):
            os.makedirs(os.path.join(root, "md", sub))
        with open(os.path.join(root, "md", "new", "1000.host"), "w") as fp:
            fp.write("From: alice@example.org\nSubject: first\n\nbody one\n")
        with open(os.path.join(root, "md", "cur", "2000.host:2,S"), "w") as fp:
            fp.write("From: bob@example.org\nSubject: second\n\nbody two\n")
        config = setup(root)

        probes = [
            ("gopher", "/md\r\n", False),
            ("gopher+", "/md\t$\r\n", False),
            ("http", "GET /md HTTP/1.0\r\n\r\n", False),
            ("spartan", "localhost /md 0\r\n", False),
            ("gemini", "gemini://localhost/md\r\n", True),
            ("gopher msg 3", "/md|/MAILDIR-MESSAGE/3\r\n", False),
        ]
        before = {}
        for name, req, tls in probes:
            before[name] = request(config, req, tls)

        # Purely read-only requests in between: list the two sub-directories
        # (they are ordinary directories of the tree).
        for req in ("/md/new\r\n", "/md/cur\r\n"):
            out, log = request(config, req)
            print("read-only request %r -> %d bytes" % (req, len(out)))

        failures = 0
        for name, req, tls in probes:
            out0, log0 = before[name]
            out1, log1 = request(config, req, tls)
            bad = []
            if internal_errors(log1):
                bad.append("internal error: %s" % internal_errors(log1))
            if not out1:
                bad.append("no response at all")
            if out1 != out0:
                bad.append(
                    "answer differs from the one given before the read-only "
                    "requests:\n      before: %r\n      after:  %r"
                    % (out0[:160], out1[:160])
                )
            if bad:
                failures += 1
                print("VIOLATION [%s] %r" % (name, req))
                for b in bad:
                    print("    " + b)
            else:
                print("ok        [%s] %r" % (name, req))
        print("files now in md/new:", sorted(os.listdir(os.path.join(root, "md", "new"))))
        return 1 if failures else 0
    finally:
        shutil.rmtree(root, ignore_errors=True)


if __name__ == "__main__":
    sys.exit(main())
