"""C12 demo 2: in a directory that is rendered from a gophermap, one linked
file that disappears (or becomes inaccessible) between the existence check and
the stat() that follows it takes the whole listing down.

Run as:  cd /tmp/wt4-C12 && /venv/bin/python HUNT/2/demo.py
Exits 0 if every listing succeeds and contains every other entry.
"""
import errno
import io
import os
import shutil
import sys
import tempfile
import threading
import time
import warnings

ROOT = os.path.dirname(os.path.dirname(os.path.dirname(os.path.abspath(__file__))))
sys.path.insert(0, ROOT)
os.chdir(ROOT)
warnings.simplefilter("ignore")

from pygopherd import initialization, logger, testutil  # noqa: E402
from pygopherd.protocols import ProtocolMultiplexer  # noqa: E402
import pygopherd.handlers.HandlerMultiplexer as HM  # noqa: E402
import pygopherd.handlers.base as hbase  # noqa: E402

TIMEOUT = 2.0


class FakeServer:
    server_name = "localhost"
    server_port = 70


class FakeRequestHandler:
    def __init__(self, tls, rfile, wfile):
        self.client_address = ("10.1.1.1", 1234)
        cls = testutil.MockSSLRequest if tls else testutil.MockRequest
        self.request = cls(rfile, wfile)
        self.rfile, self.wfile = rfile, wfile


def make_config(root, handlers=None, cachetime=None):
    config = initialization.init_config("conf/pygopherd.conf")
    config.set("pygopherd", "root", root)
    config.set("logger", "logmethod", "none")
    if handlers:
        config.set("handlers.HandlerMultiplexer", "handlers", handlers)
    if cachetime is not None:
        config.set("handlers.dir.DirHandler", "cachetime", str(cachetime))
    logger.init(config)
    HM.handlers = None
    HM.rootpath = None
    hbase.rootpath = None
    return config


def do_request(config, line, tls=False):
    """Drive the real protocol + handler code in-process.  Returns
    (status, output) where status is 'ok', 'hang' or 'exception: ...'."""
    rfile = io.BytesIO(line.encode())
    wfile = io.BytesIO()
    server = FakeServer()
    server.config = config
    rh = FakeRequestHandler(tls, rfile, wfile)
    proto = ProtocolMultiplexer.getProtocol(
        rfile.readline().decode(), server, rh, rfile, wfile, config
    )
    result = {}

    def run():
        try:
            proto.handle()
            result["status"] = "ok"
        except BaseException as e:  # noqa
            result["status"] = "exception: %r" % (e,)

    t = threading.Thread(target=run, daemon=True)
    t.start()
    t.join(TIMEOUT)
    if t.is_alive():
        return "hang (no answer after %.0f s)" % TIMEOUT, wfile.getvalue()
    return result["status"], wfile.getvalue()


REQUESTS = [
    ("gopher", "/d\r\n", False),
    ("gopher+", "/d\t$\r\n", False),
    ("http", "GET /d HTTP/1.0\r\n\r\n", False),
    ("wap", "GET /wap/d HTTP/1.0\r\n\r\n", False),
    ("gemini", "gemini://localhost/d\r\n", True),
    ("spartan", "localhost /d 0\r\n", False),
]
OTHERS = ["/d/alpha.txt", "/d/beta.txt"]
GOPHERMAP = "0Alpha\talpha.txt\n0Victim\tvictim.txt\n0Beta\tbeta.txt\n"


def build_tree():
    root = tempfile.mkdtemp(prefix="c12-2-")
    d = os.path.join(root, "d")
    os.mkdir(d)
    for name in ("alpha.txt", "victim.txt", "beta.txt"):
        with open(os.path.join(d, name), "w") as fp:
            fp.write("hello\n")
    with open(os.path.join(d, "gophermap"), "w") as fp:
        fp.write(GOPHERMAP)
    return root


class Fault:
    """Deterministic schedule: the first stat() of the victim succeeds; what
    happens next depends on the kind of fault."""

    def __init__(self, kind):
        self.kind = kind
        self.real_stat = os.stat
        self.hits = 0

    def __call__(self, path, *args, **kwargs):
        if isinstance(path, (str, bytes)) and os.fsdecode(path).endswith(
            "/d/victim.txt"
        ):
            self.hits += 1
            if self.hits == 1:
                result = self.real_stat(path, *args, **kwargs)
                if self.kind == "deleted":
                    # a real deletion right after the first look at the entry
                    os.unlink(path)
                return result
            if self.kind == "eacces":
                raise PermissionError(errno.EACCES, os.strerror(errno.EACCES), path)
        return self.real_stat(path, *args, **kwargs)

    def __enter__(self):
        os.stat = self
        return self

    def __exit__(self, *exc):
        os.stat = self.real_stat


def main():
    failures = []
    roots = []
    mime_done = False
    for kind in (None, "deleted", "eacces"):
        for proto, line, tls in REQUESTS:
            root = build_tree()
            roots.append(root)
            config = make_config(root)
            if not mime_done:
                initialization.init_mimetypes(config)
                mime_done = True
            if kind is None:
                status, out = do_request(config, line, tls)
            else:
                with Fault(kind):
                    status, out = do_request(config, line, tls)
            missing = [s for s in OTHERS if s.encode() not in out]
            good = status == "ok" and not missing
            if kind is None:
                assert good and b"/d/victim.txt" in out, ("control failed", proto, out)
            elif not good:
                failures.append((kind, proto))
                print(
                    "VIOLATION [victim.txt %s after the existence check] %s request "
                    "%r: handle() returned %s; entries missing from the listing: %s; the server "
                    "answered %r"
                    % (
                        "deleted" if kind == "deleted" else "stat fails with EACCES",
                        proto,
                        line,
                        status,
                        missing,
                        out[:120],
                    )
                )
    for root in roots:
        shutil.rmtree(root, ignore_errors=True)
    if failures:
        print()
        print(
            "%d listing(s) of the gophermap directory /d failed although only "
            "victim.txt was unservable; the control run (no fault) lists alpha.txt, "
            "victim.txt and beta.txt on every protocol." % len(failures)
        )
        sys.stdout.flush()
        os._exit(1)
    print("OK: the vanished entry never took its directory down")
    sys.exit(0)


main()
