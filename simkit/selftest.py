"""Self-tests of the simulator: smoke, determinism, sensitivity."""
import concurrent.futures as cf
import glob
import json
import multiprocessing as mp
import os
import shutil
import subprocess
import sys
import time

VERIF = os.path.dirname(os.path.dirname(os.path.abspath(__file__)))
ALL = ["c01", "c02", "c03", "c07", "c10", "c11", "c12", "c14", "c19", "c20"]


def available():
    return [m for m in ALL if os.path.exists(os.path.join(VERIF, "checks", m + ".py"))]


def _digests(modname, indices, tier="quick"):
    from .tape import derive_seed
    from . import runner, harness
    mod = runner._load(modname)
    out = []
    try:
        for i in indices:
            sc = mod.gen(derive_seed(0, mod.PROPERTY, i), i, tier)
            r = runner.safe_execute(mod, sc)
            if r.get("harness_error"):
                out.append((i, "HARNESS-ERROR " + r["harness_error"][:500]))
            else:
                out.append((i, r["digest"] + ("/V" if r.get("violation") else "")))
    finally:
        harness.cleanup_process_scratch()
    return out


def _pool_digests(modname, indices, workers, reverse=False):
    idx = list(indices)
    if reverse:
        idx.reverse()
    chunks = [idx[i::workers] for i in range(workers)]
    res = {}
    with cf.ProcessPoolExecutor(max_workers=workers, mp_context=mp.get_context("fork")) as ex:
        for part in ex.map(_digests, [modname] * workers, chunks):
            res.update(dict(part))
    return res


def _fresh_digests(modname, indices, hashseed):
    env = dict(os.environ, VERIF_HASHSEED=str(hashseed), PYTHONHASHSEED=str(hashseed),
               VERIF_NO_REEXEC="1", TZ="UTC", LC_ALL="C.UTF-8", PYTHONDONTWRITEBYTECODE="1",
               PYTHONWARNINGS="ignore")
    p = subprocess.run([sys.executable, os.path.join(VERIF, "simkit", "cli.py"), "selftest-digests",
                        modname] + [str(i) for i in indices],
                       capture_output=True, text=True, env=env, timeout=1800)
    for line in p.stdout.splitlines():
        if line.startswith("DIGESTS "):
            return {int(k): v for k, v in json.loads(line[8:]).items()}
    raise RuntimeError("fresh interpreter failed: " + p.stdout[-2000:] + p.stderr[-2000:])


def determinism(mods, n):
    bad = 0
    for m in mods:
        t0 = time.time()
        idx = list(range(n))
        a = _pool_digests(m, idx, 5)
        b = _pool_digests(m, idx, 11, reverse=True)
        c = _fresh_digests(m, idx[: max(10, n // 4)], 4242)
        diffs = [i for i in idx if a[i] != b[i]] + [i for i in c if c[i] != a[i]]
        herr = [i for i in idx if a[i].startswith("HARNESS")]
        print("determinism %s: %d seeds x2 pools (5 and 11 workers) + %d in a fresh interpreter "
              "under PYTHONHASHSEED=4242: %d mismatches, %d harness errors, %.1fs"
              % (m, n, len(c), len(diffs), len(herr), time.time() - t0))
        for i in diffs[:5]:
            print("   index %d: %s | %s | %s" % (i, a[i], b[i], c.get(i)))
        for i in herr[:2]:
            print("   ", a[i])
        bad += len(diffs) + len(herr)
    return 0 if bad == 0 else 2


def smoke():
    from . import harness, proto, world
    from .tape import Tape
    harness.load_repo()
    spec = [{"p": "a.txt", "k": "file", "d": "hello\n"}, {"p": "d", "k": "dir"},
            {"p": "d/b.html", "k": "file", "d": "<title>B</title>"}]
    outs = []
    for rep in range(2):
        with harness.Scratch("smoke") as base:
            root = os.path.join(base, "root")
            world.build(root, spec)
            got = []
            for p in ("gopher", "http", "gemini", "gopher$"):
                for st in ("ThreadingTCPServer", "ForkingTCPServer"):
                    req, tls = proto.make_request(p, "/")
                    out, run = harness.one_shot(root, req, tls=tls, servertype=st)
                    if not proto.is_success(p, out):
                        print("smoke: %s/%s did not succeed: %r" % (p, st, out[:200]))
                        return 2
                    got.append(out)
            outs.append(got)
    harness.cleanup_process_scratch()
    if outs[0] != outs[1]:
        print("smoke: two identical runs differ")
        return 2
    print("smoke ok: repo=%s, %d requests, identical twice" % (harness.REPO, len(outs[0])))
    return 0


def main(name, args):
    if name == "selftest-smoke":
        return smoke()
    if name == "selftest-digests":
        mod = args[0]
        idx = [int(x) for x in args[1:]]
        print("DIGESTS " + json.dumps(dict(_digests(mod, idx))))
        return 0
    if name == "selftest-determinism":
        mods = [a.lower() for a in args if not a.startswith("-") and not a.isdigit()] or available()
        n = int(os.environ.get("VERIF_SELFTEST_N", "60"))
        return determinism(mods, n)
    if name == "selftest-sensitivity":
        from . import sensitivity
        return sensitivity.main(args)
    print("unknown selftest", name)
    return 2
