#!/usr/bin/env python
"""
C02 hunt, finding 3: the WAP protocol claims every HTTP request whose path
merely *begins with the characters* of the configured ``waptop`` ("/wap"),
not only requests for the documented WAP URL ("accessing
http://sitename.com/wap will bring up your site in WAP mode",
conf/pygopherd.conf).  A plain HTTP request for /wapiti.txt or /wapping/ --
links that the server's own HTML menu hands out -- is therefore answered by
WAPProtocol (for the wrong selector, /iti.txt or /ping) instead of by
HTTPProtocol.

Run as:  cd /tmp/wt4-C02 && /venv/bin/python HUNT/3/demo.py
Exits 0 if HTTP requests outside the /wap URL space are answered by
HTTPProtocol, non-zero otherwise.
"""
import io
import os
import shutil
import sys
import tempfile
import warnings

ROOT = os.path.dirname(os.path.dirname(os.path.dirname(os.path.abspath(__file__))))
sys.path.insert(0, ROOT)
os.chdir(ROOT)
warnings.simplefilter("ignore")

from pygopherd import initialization, testutil  # noqa: E402
from pygopherd.protocols import ProtocolMultiplexer  # noqa: E402


class KeepOpen(io.BytesIO):
    def close(self):  # keep the bytes readable after finish()
        pass


def make_config(docroot):
    config = initialization.init_config("conf/pygopherd.conf")  # shipped config
    config.set("pygopherd", "root", docroot)
    config.set("pygopherd", "port", "0")
    config.set("pygopherd", "servertype", "ThreadingTCPServer")
    config.set("logger", "logmethod", "none")
    initialization.init_logger(config, "conf/pygopherd.conf")
    initialization.init_exceptions(config)
    initialization.init_mimetypes(config)
    return config


def serve(config, server, raw, tls=False):
    """Feed the bytes `raw` to the real GopherRequestHandler.handle();
    return (name of the protocol class that answered, response bytes)."""
    rfile, wfile = KeepOpen(raw), KeepOpen()
    cls = testutil.MockSSLRequest if tls else testutil.MockRequest
    handler = testutil.MockRequestHandler(
        cls(rfile, wfile), ("10.77.77.77", "7777"), server
    )
    answered = []
    real = ProtocolMultiplexer.getProtocol

    def spy(*a, **kw):
        p = real(*a, **kw)
        answered.append(p)
        return p

    ProtocolMultiplexer.getProtocol = spy
    try:
        handler.handle()
    finally:
        ProtocolMultiplexer.getProtocol = real
    return answered[0], wfile.getvalue()



import re

from pygopherd.protocols.http import HTTPProtocol  # noqa: E402
from pygopherd.protocols.wap import WAPProtocol  # noqa: E402

HDRS = b"Host: example.org\r\nAccept: text/html\r\n\r\n"


def under_waptop(path: bytes, waptop: bytes) -> bool:
    """Is the request path the WAP URL or something below it?"""
    return path == waptop or path[len(waptop):len(waptop) + 1] in (b"/", b"?") \
        and path.startswith(waptop)


def main():
    docroot = tempfile.mkdtemp(prefix="c02-3-")
    try:
        body = b"WAPITI-BODY\n"
        with open(os.path.join(docroot, "wapiti.txt"), "wb") as fp:
            fp.write(body)
        os.mkdir(os.path.join(docroot, "wapping"))
        with open(os.path.join(docroot, "wapping", "old-stairs.txt"), "wb") as fp:
            fp.write(body)
        with open(os.path.join(docroot, "zebra.txt"), "wb") as fp:
            fp.write(body)
        config = make_config(docroot)
        waptop = config.get("protocols.wap.WAPProtocol", "waptop").encode()
        server = initialization.get_server(config)
        server.server_close()

        # Sanity: the documented WAP URLs are answered by WAP.
        for line in (b"GET /wap HTTP/1.0\r\n", b"GET /wap/zebra.txt HTTP/1.0\r\n"):
            proto, out = serve(config, server, line + HDRS)
            assert isinstance(proto, WAPProtocol), (line, proto)

        # Fetch the HTML menu of "/" over plain HTTP and follow its links.
        proto, page = serve(config, server, b"GET / HTTP/1.0\r\n" + HDRS)
        assert type(proto) is HTTPProtocol, proto
        hrefs = [h for h in re.findall(rb'<A HREF="(/[^"]*)">', page) if h != b"/"]
        print("links in the server's own HTML menu of /:", hrefs)

        failures = []
        for href in hrefs:
            line = b"GET " + href + b" HTTP/1.0\r\n"
            proto, out = serve(config, server, line + HDRS)
            name = type(proto).__name__
            status = out.split(b"\r\n", 1)[0]
            print("%-36r -> %-13s selector=%-12r %r" % (line, name, proto.selector, status))
            if under_waptop(href, waptop):
                continue
            # Plain HTTP request (no WAP Accept/x-wap-profile headers) for a
            # URL outside the WAP URL space: HTTPProtocol is the first
            # protocol of the shipped list whose shape it matches.
            if type(proto) is not HTTPProtocol:
                failures.append((line, name, proto.selector, status))
            elif href.endswith(b".txt") and not out.endswith(body):
                failures.append((line, name, proto.selector, status))

        if failures:
            print()
            print("PROPERTY C02 VIOLATED: plain HTTP requests for URLs that are not the")
            print("WAP URL (%r) nor below it were claimed by WAPProtocol:" % waptop)
            for line, name, sel, status in failures:
                print("  line=%r answered by %s as selector %r: %r" % (line, name, sel, status))
            return 1
        print("ok")
        return 0
    finally:
        shutil.rmtree(docroot, ignore_errors=True)


if __name__ == "__main__":
    sys.exit(main())
