#!/usr/bin/env python
"""
C01 hunt, finding 4: a ZIP archive stored inside a ZIP archive.  When the ZIP
handler is asked for /outer.zip/inner.zip it runs, with the VFS of the outer
archive,

    zipfile.is_zipfile(self.vfs.getfspath(basename))        (ZIP.py)

and VFSZip.getfspath() is the path INSIDE the outer archive ("inner.zip"), so
the real file <cwd>/inner.zip is opened.  What is sent then depends on it: if
the working directory happens to hold a ZIP of that name the member is served
as a menu, otherwise as a binary file; and in the first case VFSZip.save_cache()
writes its shelve index (.cache.pygopherd.zip3.inner.zip*) into the working
directory, again because chain.getfspath() is relative.

The check is the property itself (same root, two states of the world outside
it -> identical bytes, nothing outside opened or created).
"""
import io
import os
import sys
import warnings

WT = os.path.dirname(os.path.dirname(os.path.dirname(os.path.abspath(__file__))))
sys.path.insert(0, WT)
os.chdir(WT)
warnings.simplefilter("ignore")

import shutil  # noqa: E402
import tempfile  # noqa: E402
import zipfile  # noqa: E402

import pygopherd.handlers.base as hbase  # noqa: E402
from pygopherd import initialization, logger, testutil  # noqa: E402
from pygopherd.handlers import HandlerMultiplexer  # noqa: E402

# ---------------------------------------------------------------- harness ---

WATCH = {"dir": None, "events": []}
FS_EVENTS = {
    "open", "os.listdir", "os.scandir", "os.mkdir", "os.remove", "os.rename",
    "os.rmdir", "os.chmod", "os.truncate", "os.utime", "os.link", "os.symlink",
}


def _audit(event, args):
    watched = WATCH["dir"]
    if watched is None or event not in FS_EVENTS or not args:
        return
    path = args[0]
    if isinstance(path, bytes):
        path = os.fsdecode(path)
    if not isinstance(path, str):
        return
    full = os.path.realpath(os.path.join(os.getcwd(), path))
    if full == watched or full.startswith(watched + os.sep):
        WATCH["events"].append("%s(%r)" % (event, path))


sys.addaudithook(_audit)


class KeepOpen(io.BytesIO):
    def close(self):
        pass


class FakeServer:
    server_name = "gopher.example"
    server_port = 70

    def __init__(self, config):
        self.config = config


def make_config(conffile, root, handlers=None):
    # conffile is one of the two configuration files shipped in conf/
    config = initialization.init_config(os.path.join(WT, "conf", conffile))
    config.set("pygopherd", "root", root)
    config.set("logger", "logmethod", "none")
    if handlers:
        config.set("handlers.HandlerMultiplexer", "handlers", handlers)
    logger.init(config)
    cwd = os.getcwd()
    os.chdir(WT)  # the mimetypes option is "./conf/mime.types:..."
    initialization.init_mimetypes(config)
    os.chdir(cwd)
    return config


def request(config, line, outside):
    """One request through the real GopherRequestHandler.handle()."""
    HandlerMultiplexer.handlers = None
    HandlerMultiplexer.rootpath = None
    hbase.rootpath = None
    rfile, wfile = KeepOpen(line), KeepOpen()
    handler = testutil.MockRequestHandler(
        testutil.MockRequest(rfile, wfile), ("10.0.0.1", 7777), FakeServer(config)
    )
    WATCH["events"] = []
    WATCH["dir"] = os.path.realpath(outside)
    try:
        handler.handle()
    finally:
        WATCH["dir"] = None
    return wfile.getvalue(), list(WATCH["events"])


# --------------------------------------------------------------- scenario ---


def tree(top):
    out = []
    for d, dirs, files in os.walk(top):
        for n in dirs + files:
            out.append(os.path.relpath(os.path.join(d, n), top))
    return sorted(out)


tmp = tempfile.mkdtemp(prefix="c01-hunt4-")
failures = []
try:
    root = os.path.join(tmp, "root")
    outside = os.path.join(tmp, "outside")  # the process working directory
    os.mkdir(root)
    os.mkdir(outside)
    inner = io.BytesIO()
    with zipfile.ZipFile(inner, "w") as z:
        z.writestr("hello.txt", "hello from the inner archive\n")
    with zipfile.ZipFile(os.path.join(root, "outer.zip"), "w") as z:
        z.writestr("inner.zip", inner.getvalue())
        z.writestr("readme.txt", "hi\n")

    unrelated = io.BytesIO()
    with zipfile.ZipFile(unrelated, "w") as z:
        z.writestr("unrelated.txt", "some other archive that lives in the cwd\n")

    def state_a():
        with open(os.path.join(outside, "inner.zip"), "wb") as f:
            f.write(unrelated.getvalue())

    def state_b():
        for name in os.listdir(outside):
            os.remove(os.path.join(outside, name))

    os.chdir(outside)
    config = make_config("local.conf", root)  # shipped full handler list, ZIP on
    line = b"/outer.zip/inner.zip\r\n"

    state_a()
    before = tree(outside)
    resp_a, ev_a = request(config, line, outside)
    after = tree(outside)
    state_b()
    resp_b, ev_b = request(config, line, outside)

    print("request %r, handler list of conf/local.conf, cwd = outside" % line)
    print("   cwd holds some inner.zip : %r" % resp_a)
    print("   cwd is empty             : %r" % (resp_b[:60] + b"..."))
    print("   outside tree before/after 1st request: %s / %s" % (before, after))
    print("   outside paths touched: %s" % (sorted(set(ev_a + ev_b)) or "none"))
    if resp_a != resp_b:
        failures.append("response depends on a file outside the root")
    if before != after:
        failures.append(
            "the request created %s outside the root"
            % sorted(set(after) - set(before))
        )
    if ev_a or ev_b:
        failures.append(
            "opened/created outside the root: %s" % sorted(set(ev_a + ev_b))
        )
finally:
    os.chdir(WT)
    shutil.rmtree(tmp, ignore_errors=True)

if failures:
    print("\nPROPERTY C01 VIOLATED:")
    for f in failures:
        print(" - " + f)
    sys.exit(1)
print("C01 held for these cases")
sys.exit(0)
