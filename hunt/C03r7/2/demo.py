#!/usr/bin/env python
"""C03 hunt, finding 2.

FileHandler.prepare() does not open the file, so the protocols send their
success status (Gopher+ "+<size>", HTTP "200 OK" + headers, Gemini "20 ...",
Spartan "2 ...") BEFORE the file is opened in write().  When that open fails
(a file the server's user may not read: mode 0600 of another user; or any
failing open(): EMFILE, EIO, file removed since stat) the error path runs
AFTER the status went out:

  * Gopher+      "+12\r\n" followed by a second status "--2\r\n1 admin..."
  * HTTP / WAP   "HTTP/1.0 200 OK ...\r\n\r\nHTTP/1.0 404 Not Found ..."
  * Gemini       "20 text/plain\r\n", no body, traceback on stderr
  * Spartan      "2 text/plain\r\n", no body, traceback on stderr

The demo serves a tree with one unreadable regular file.  When run as root it
forks and drops to uid/gid 65534 so that the kernel really refuses the open;
if that is impossible it makes open() fail with EACCES for that one path.
Exit status 0 iff every answer is exactly one well-formed response.
"""
import builtins
import contextlib
import errno
import io
import os
import re
import shutil
import sys
import tempfile
import warnings

warnings.simplefilter("ignore")
ROOT = os.path.dirname(os.path.dirname(os.path.dirname(os.path.abspath(__file__))))
sys.path.insert(0, ROOT)
os.chdir(ROOT)

from pygopherd import GopherExceptions, gopherentry, initialization, logger, testutil  # noqa: E402
from pygopherd.handlers import HandlerMultiplexer, UMN  # noqa: E402
from pygopherd.handlers import base as hbase  # noqa: E402

LOG = []


def setup(root):
    config = initialization.init_config("conf/pygopherd.conf")
    config.set("pygopherd", "root", root)
    HandlerMultiplexer.handlers = None
    HandlerMultiplexer.rootpath = None
    hbase.rootpath = None
    gopherentry.mapping = None
    gopherentry.eaexts = None
    UMN.extstrip = None
    logger.log = LOG.append
    initialization.init_mimetypes(config)
    GopherExceptions.tracebacks = 0
    return config


class FakeServer:
    server_name = "localhost"
    server_port = 70


def request(config, data, tls=False):
    rfile = io.BytesIO(data.encode("utf-8", "surrogateescape"))
    wfile = io.BytesIO()
    wfile.close = lambda: None
    server = FakeServer()
    server.config = config
    sock = (testutil.MockSSLRequest if tls else testutil.MockRequest)(rfile, wfile)
    handler = testutil.MockRequestHandler(sock, ("10.77.77.77", "7777"), server)
    del LOG[:]
    stderr = io.StringIO()
    with contextlib.redirect_stderr(stderr):
        handler.handle()
    return wfile.getvalue(), list(LOG), stderr.getvalue()


# ---- what "one well-formed response" means, per protocol -------------------

def check_gopherplus(out):
    """One status line: either +<n>/+-1/+-2 followed by data, or --<n>
    followed by the error text.  Nothing that looks like a second status."""
    lines = out.split(b"\r\n")
    if not re.match(rb"^(\+-?\d+|--\d+)$", lines[0]):
        return "no Gopher+ status line: %r" % lines[0]
    m = re.match(rb"^\+(\d+)$", lines[0])
    if m and len(out) - len(lines[0]) - 2 != int(m.group(1)):
        return "status %r announces %s bytes, %d follow: %r" % (
            lines[0], m.group(1).decode(), len(out) - len(lines[0]) - 2, out[:80])
    if lines[0].startswith(b"+") and any(re.match(rb"^--\d+$", x) for x in lines[1:]):
        return "success status %r followed by an error status: %r" % (lines[0], out[:80])
    return None


def check_http(out):
    head, sep, body = out.partition(b"\r\n\r\n")
    if not sep or not re.match(rb"^HTTP/1\.[01] \d\d\d ", head):
        return "no HTTP status line / header block: %r" % out[:60]
    if re.search(rb"(^|\n)HTTP/1\.[01] \d\d\d ", body):
        return "second HTTP status line inside the body of the first: %r" % out[:200]
    return None


def check_statusline(pattern_ok):
    def check(out):
        line, sep, body = out.partition(b"\r\n")
        if not sep or not re.match(rb"^\d+ ", line):
            return "no status line: %r" % out[:60]
        if re.match(pattern_ok, line) and not body:
            return "success status %r but no document follows" % line
        return None
    return check


def run_checks(root, note):
    config = setup(root)
    probes = [
        ("gopher+", "/private.txt\t+\r\n", False, check_gopherplus),
        ("http", "GET /private.txt HTTP/1.0\r\n\r\n", False, check_http),
        ("wap", "GET /wap/private.txt HTTP/1.0\r\n\r\n", False, check_http),
        ("spartan", "localhost /private.txt 0\r\n", False, check_statusline(rb"^2 ")),
        ("gemini", "gemini://localhost/private.txt\r\n", True, check_statusline(rb"^2\d ")),
    ]
    print("fault: " + note)
    failures = 0
    for name, req, tls, check in probes:
        out, log, err = request(config, req, tls)
        problems = []
        verdict = check(out)
        if verdict:
            problems.append(verdict)
        if "Traceback" in err:
            problems.append("unhandled internal error (traceback on stderr): "
                            + err.strip().splitlines()[-1])
        if problems:
            failures += 1
            print("VIOLATION [%s] %r" % (name, req))
            for p in problems:
                print("    " + p)
        else:
            print("ok        [%s] %r -> %r" % (name, req, out[:60]))
    return 1 if failures else 0


def main():
    root = tempfile.mkdtemp(prefix="c03-2-")
    os.chmod(root, 0o755)
    try:
        with open(os.path.join(root, "readme.txt"), "w") as fp:
            fp.write("hello\n")
        private = os.path.join(root, "private.txt")
        with open(private, "w") as fp:
            fp.write("secret data\n")
        os.chmod(private, 0)

        def really_unreadable():
            try:
                open(private, "rb").close()
                return False
            except PermissionError:
                return True

        if really_unreadable():
            return run_checks(root, "mode-000 file, server is not root")

        # We are root: try it for real in a child without privileges.
        # Load everything first (the child may not be able to read site dirs).
        warm = setup(root)
        for req, tls in (("/readme.txt\t+\r\n", False), ("GET /readme.txt HTTP/1.0\r\n\r\n", False),
                         ("GET /wap/readme.txt HTTP/1.0\r\n\r\n", False),
                         ("GET /nope HTTP/1.0\r\n\r\n", False), ("/nope\t+\r\n", False),
                         ("localhost /readme.txt 0\r\n", False),
                         ("gemini://localhost/readme.txt\r\n", True)):
            request(warm, req, tls)
        sys.stdout.flush()
        pid = os.fork()
        if pid == 0:
            status = 99
            try:
                try:
                    os.setgroups([])
                    os.setgid(65534)
                    os.setuid(65534)
                except OSError:
                    os._exit(98)
                if not really_unreadable():
                    os._exit(98)
                status = run_checks(root, "mode-000 file, server runs as uid 65534")
                sys.stdout.flush()
            finally:
                os._exit(status)
        _, st = os.waitpid(pid, 0)
        code = os.waitstatus_to_exitcode(st)
        if code not in (98, 99):
            return code

        # Could not drop privileges: make open() of that one path fail.
        real_open = builtins.open

        def failing_open(file, *args, **kwargs):
            if os.fsencode(file) == os.fsencode(private) if isinstance(file, (str, bytes)) else False:
                raise PermissionError(errno.EACCES, "Permission denied", file)
            return real_open(file, *args, **kwargs)

        builtins.open = failing_open
        try:
            return run_checks(root, "open() of the file fails with EACCES (injected)")
        finally:
            builtins.open = real_open
    finally:
        shutil.rmtree(root, ignore_errors=True)


if __name__ == "__main__":
    sys.exit(main())
