"""C11 - a cache file cut off at any byte is harmless.

Workload A (crash points): list a directory (cache written); then cut the
cache: truncate / zero-fill the stored file, or kill / ENOSPC the writer of a
second cache write at a chosen byte; then list again within the lifetime.
Workload B (schedules): concurrent listings of the same uncached directory
under the scheduler with torn writes, so a reader can observe a writer.
ZIP index cache: same faults on the dbm.dumb files written by save_cache.

Oracle: every response after the fault (and the ENOSPC-faulted response
itself) equals the reference server's listing of the pristine directory.
"""
import os
import random

from simkit import harness, proto, sched, world, fs as simfs
from simkit.tape import Tape
from . import common
from .common import CACHEFILE

PROPERTY = "C11"
LEVEL = "fault_enumeration"
RUNS = {"quick": 3000, "thorough": 60000}
BATCH = 40
RULE = ("seeded scenarios: (directory tree, server type, fault kind in {truncate-at-cut, zero-fill, "
        "writer crash at cut, ENOSPC at cut, concurrent readers vs torn writer, ZIP index file faults}, "
        "cut position, writer and reader protocol); a run is non-trivial when its fault fired or a "
        "reader actually opened the damaged cache; distinct = distinct (kind, target file, cut bucket, "
        "reader protocol, server type) tuples")
REAL = common.REAL
STUB = common.STUB
ASSUMPTIONS = [
    "a crash is modelled at write() granularity of the file object plus explicit truncation of the "
    "stored file at every byte offset; lost/unsynced tails are modelled by zero-fill",
    "ZIP index cache results hold for dbm.dumb (the only dbm back end in this interpreter)",
]
PROBES_REQUIRED = ["reader_opened_damaged_cache", "fs_crash_in_write", "fs_enospc",
                   "race_reader_saw_partial", "fs_stalled_reader"]

KINDS = ["trunc", "trunc", "trunc", "zero", "crash", "enospc", "race", "race", "zip", "crash", "enospc-close",
         "splice", "shrink-at-open"]
PROTOS = proto.LISTING_PROTOCOLS


def gen(seed, index, tier):
    rng = random.Random(seed)
    kind = KINDS[index % len(KINDS)] if index < 200 else rng.choice(KINDS)
    sub = rng.random() < 0.6
    dname = "docs" if sub else ""
    dspec, names = world.gen_dir(rng, dname, n=rng.randrange(1, 9), mail=rng.random() < 0.2)
    spec = ([{"p": dname, "k": "dir"}] if sub else []) + dspec
    if sub:
        spec.append({"p": "top.txt", "k": "file", "d": "top\n"})
    sc = {
        "kind": kind,
        "spec": spec,
        "dir": dname,
        "servertype": rng.choice(["ThreadingTCPServer", "ForkingTCPServer"]),
        "protoA": rng.choice(PROTOS),
        "protoB": rng.choice(PROTOS),
        "cut": rng.choice([{"abs": 0}, {"abs": 1}, {"abs": 2}, {"from_end": 1}, {"from_end": 2},
                           {"frac": rng.random()}, {"frac": rng.random()},
                           {"abs": rng.choice([4095, 4096, 4097, 8192])}]),
        "sched_seed": rng.randrange(1 << 30),
        "handlers": "default",
    }
    if kind in ("crash", "enospc", "enospc-close") and names and rng.random() < 0.6:
        # the directory changes between the first listing and the interrupted rewrite of its cache
        victim = rng.choice(names)
        pre = (dname + "/") if dname else ""
        sc["mutate"] = rng.choice([{"op": "delete", "p": pre + victim},
                                   {"op": "rename", "p": pre + victim, "to": pre + "renamed-" + victim},
                                   {"op": "create", "p": pre + "brand-new.txt"}])
    if kind in ("trunc", "zero") and names and rng.random() < 0.35:
        victim = rng.choice(names)
        pre = (dname + "/") if dname else ""
        sc["gen2"] = True
        sc["mutate"] = rng.choice([{"op": "delete", "p": pre + victim},
                                   {"op": "rename", "p": pre + victim, "to": pre + "renamed-" + victim},
                                   {"op": "create", "p": pre + "brand-new.txt"},
                                   {"op": "create", "p": pre + "zz-brand-new.txt"}])
    if kind == "splice":
        # a slow reader is part-way through a fresh cache when another request, for which the cache has
        # just expired, rewrites it; the directory changed (same-length names) since the cache was written
        nfiles = rng.choice([40, 80, 120])
        sc["spec"] = [{"p": "big", "k": "dir"}] + [
            {"p": "big/f%03d.txt" % i, "k": "file", "d": "x\n"} for i in range(nfiles)]
        sc["dir"] = "big"
        sc["mutate_same_len"] = [rng.randrange(nfiles), nfiles + rng.randrange(50)]
        sc["stall_read"] = rng.choice([1, 2, 3, 4])
        sc["servertype"] = "ThreadingTCPServer"
        sc["protoA"] = sc["protoB"] = rng.choice(["gopher", "http", "gemini"])
    if kind == "race":
        sc["clients"] = [rng.choice(PROTOS) for _ in range(rng.randrange(2, 4))]
        sc["preempt_p"] = rng.choice([0.0, 0.01, 0.05, 0.2])
        sc["torn"] = sorted(rng.random() for _ in range(rng.randrange(0, 4)))
        sc["stagger"] = [rng.choice([0.0, 0.0, 0.001, 0.01]) for _ in sc["clients"]]
        sc["policy"] = rng.choice(["random", "pct", "pct"])
        if rng.random() < 0.4:
            # the clients race on a cache file that is already damaged (and still fresh)
            sc["predamage"] = rng.choice(["trunc", "trunc", "zero"])
    if kind == "zip":
        sc["handlers"] = "zip"
        sc["spec"] = spec + [{"p": (dname + "/" if dname else "") + "arc.zip", "k": "zip",
                              "members": [["a.txt", "zip a\n"], ["d/", ""], ["d/b.txt", "zip b\n"],
                                          ["d/c.html", "<title>T</title>"]]}]
        sc["zipsel"] = rng.choice(["", "/d"])
        sc["zipfile"] = rng.choice([".dat", ".dir", ".bak"])
        sc["zipfault"] = rng.choice(["trunc", "crash", "enospc", "zero"])
    return sc


def SWEEP(tier):
    """Every prefix length of the cache of fixed small directories.  The cache of even a
    one-entry directory is ~3 KB (every entry pickles the whole configuration), so the sweep
    runs up to 12 000 and offsets beyond the actual size are skipped as trivial.
    quick: every offset for a one-entry directory, every 3rd for a three-entry one;
    thorough: every offset of both, through four reader protocols."""
    out = []
    spec1 = [{"p": "docs", "k": "dir"}, {"p": "docs/alpha.txt", "k": "file", "d": "a\n"}]
    spec3 = [{"p": "docs", "k": "dir"},
             {"p": "docs/alpha.txt", "k": "file", "d": "a\n"},
             {"p": "docs/beta.html", "k": "file", "d": "<title>Beta</title>"},
             {"p": "docs/sub", "k": "dir"}, {"p": "docs/sub/x.txt", "k": "file", "d": "x"}]
    readers = ["gopher"] if tier == "quick" else ["gopher", "http", "gopher$", "gemini"]
    plans = [(spec1, 1, 4200), (spec3, 3 if tier == "quick" else 1, 12000)]
    chunk = 150
    for rp in readers:
        for spec, step, top in plans:
            for lo in range(0, top, chunk * step):
                out.append({"kind": "trunc-sweep", "spec": spec, "dir": "docs",
                            "servertype": "ThreadingTCPServer", "protoA": "gopher", "protoB": rp,
                            "cuts": list(range(lo, min(top, lo + chunk * step), step)),
                            "cut": {"abs": lo}, "sched_seed": 1, "handlers": "default", "sweep": True})
    return out


def _listing_sel(sc):
    return common.selector_of(sc["dir"])


def _viol(oracle, sc, proto_name, got, want, extra=None, exc=None):
    sig = {"oracle": oracle, "fault": sc["kind"]}
    if exc:
        sig["exc"] = exc
    if extra:
        sig.update(extra)
    return {"oracle": oracle, "signature": sig,
            "detail": "proto=%s got=%r want=%r" % (proto_name, common.short(got, 200),
                                                  common.short(want, 200))}


def _exc_class(run):
    recs = [r for r in run.exception_records() if r[1] != "FileNotFound"]
    return recs[-1][1] if recs else None


def _check_resp(sc, run, pname, conn, refs, oracle):
    got = proto.normalize(pname, bytes(conn.s2c))
    want = refs[pname]
    if got != want:
        kind = "empty" if not conn.s2c else ("error" if not proto.is_success(pname, got) else "different")
        return _viol(oracle, sc, pname, got, want, {"reply": kind}, exc=_exc_class(run))
    return None


def execute(sc, tape=None):
    harness.load_repo()
    counters = {}
    with harness.Scratch("c11") as base:
        root = os.path.join(base, "root")
        world.build(root, sc["spec"])
        refroot = os.path.join(base, "ref")
        harness.copy_tree(root, refroot)
        sel = _listing_sel(sc)
        if sc["kind"] == "zip":
            sel = common.selector_of((sc["dir"] + "/" if sc["dir"] else "") + "arc.zip") + sc["zipsel"]
        protos = set([sc["protoA"], sc["protoB"]] + sc.get("clients", []))

        def mkrefs(rr):
            out_refs = {}
            for p in sorted(protos):
                req, tls = proto.make_request(p, sel)
                fresh = os.path.join(base, "reffresh")
                import shutil
                shutil.rmtree(fresh, ignore_errors=True)
                harness.copy_tree(rr, fresh)
                out, r = harness.one_shot(fresh, req, tls=tls, handlers=sc["handlers"],
                                          seed=sc["sched_seed"])
                out_refs[p] = proto.normalize(p, out)
                if proto.is_not_found(p, out):
                    raise sched.HarnessError("reference listing is an error reply: %r" % out[:200])
            return out_refs

        refs = mkrefs(refroot)
        sc = dict(sc)
        sc["_refs_after"] = refs
        if sc.get("mutate"):
            _mutate(refroot, sc["mutate"], sched.EPOCH + 200.0)
            sc["_refs_after"] = mkrefs(refroot)
        tp = Tape(sc["sched_seed"], replay=tape)
        if sc["kind"] == "race":
            return _exec_race(sc, root, refs, sel, tp)
        if sc["kind"] == "trunc-sweep":
            return _exec_sweep(sc, root, refs, sel, tp)
        if sc["kind"] == "splice":
            old, new = sc["mutate_same_len"]
            os.rename(os.path.join(refroot, "big", "f%03d.txt" % old), os.path.join(refroot, "big", "f%03d.txt" % new))
            simfs.real_utime(os.path.join(refroot, "big"), (sched.EPOCH + 1, sched.EPOCH + 1))
            return _exec_splice(sc, root, refs, mkrefs(refroot), sel, tp)
        if sc["kind"] == "zip":
            return _exec_zip(sc, root, refs, sel, tp)
        return _exec_cut(sc, root, refs, sel, tp)


def _mutate(root, m, now):
    p = os.path.join(root, m["p"])
    if m["op"] == "delete":
        if os.path.isdir(p) and not os.path.islink(p):
            import shutil
            shutil.rmtree(p)
        else:
            os.unlink(p)
    elif m["op"] == "rename":
        os.rename(p, os.path.join(root, m["to"]))
    else:
        simfs.write_file(p, b"created later\n", now)
    simfs.real_utime(os.path.dirname(p), (now, now))


def _mkrun(sc, root, tp, start=sched.EPOCH, **kw):
    return harness.SimRun(root, tp, sc["sched_seed"], servertype=sc["servertype"], tls=True,
                          handlers=sc["handlers"], start=start, **kw)


def _exec_cut(sc, root, refs, sel, tp):
    kind = sc["kind"]
    cachepath = os.path.join(root, sc["dir"], CACHEFILE) if sc["dir"] else os.path.join(root, CACHEFILE)
    cacherel = (sc["dir"] + "/" if sc["dir"] else "") + CACHEFILE
    runs = []
    resps = []
    viol = None
    counters = {}
    run = _mkrun(sc, root, tp)
    runs.append(run)
    shape = None
    with run:
        run.fs.watch_open = CACHEFILE
        reqA, tlsA = proto.make_request(sc["protoA"], sel)
        c1 = run.client(reqA, tls=tlsA)
        run.go()
        resps.append(bytes(c1.s2c))
        viol = _check_resp(sc, run, sc["protoA"], c1, refs, "first-listing")
        if not os.path.exists(cachepath):
            raise sched.HarnessError("cache file was not written by the first listing")
        size = os.path.getsize(cachepath)
        cut = common.cut_from_spec(sc["cut"], size)
        restart = False
        if viol is None and kind == "shrink-at-open":
            # the cache file is cut short (a racing writer, a crash) after this reader's stat() and before its
            # open(): it reads fewer bytes than the size it saw
            frac = sc["cut"].get("frac", 0.5) if isinstance(sc["cut"], dict) else 0.5
            if "abs" in sc["cut"]:
                frac = 0.0 if sc["cut"]["abs"] == 0 else min(0.99, sc["cut"]["abs"] / max(1.0, float(size)))
            if "from_end" in sc["cut"]:
                frac = max(0.0, (size - sc["cut"]["from_end"]) / max(1.0, float(size)))
            run.fs.faults.append(simfs.Fault("open", cacherel, "shrink", nth=0, cut=frac, mode="r"))
            counters["stored_file_damaged"] = 1
            run.advance(1.0)
        elif viol is None and kind in ("trunc", "zero"):
            if sc.get("gen2"):
                # a longer life of the same process: it has read the first generation of this cache file, the
                # directory changed, the cache expired and was rewritten; it is this second generation that is cut
                c1b = run.client(reqA, tls=tlsA)
                run.go()
                resps.append(bytes(c1b.s2c))
                run.advance(200.0)
                _mutate(root, sc["mutate"], sched.EPOCH + 200.0)
                refs = sc["_refs_after"]
                c1c = run.client(reqA, tls=tlsA)
                run.go()
                resps.append(bytes(c1c.s2c))
                viol = _check_resp(sc, run, sc["protoA"], c1c, refs, "second-generation")
                size = os.path.getsize(cachepath)
                cut = common.cut_from_spec(sc["cut"], size)
                counters["second_generation_cut"] = 1
            if kind == "trunc":
                if sc.get("sweep") and sc["cut"]["abs"] > size:
                    return common.result(None, None, {}, common.run_digest(run, resps), tp.rec, 0.0)
                with simfs.real_open(cachepath, "rb+") as f:
                    f.truncate(cut)
            else:
                with simfs.real_open(cachepath, "rb+") as f:
                    f.write(b"\0" * size)
            simfs.real_utime(cachepath, (run.sim.now, run.sim.now))
            counters["stored_file_damaged"] = 1
            run.advance(1.0)
        elif viol is None:
            # second write of the same cache, after the lifetime, with a fault inside the write
            run.advance(200.0)
            if sc.get("mutate"):
                _mutate(root, sc["mutate"], sched.EPOCH + 200.0)
                counters["mutated_before_rewrite"] = 1
            refs = sc["_refs_after"]
            fk = {"crash": "crash", "enospc": "enospc", "enospc-close": "enospc_close"}[kind]
            run.fs.faults.append(simfs.Fault("write", cacherel + "*", fk, nth=0, cut=cut))
            c2 = run.client(reqA, tls=tlsA)
            run.go()
            resps.append(bytes(c2.s2c))
            if kind in ("enospc", "enospc-close"):
                viol = _check_resp(sc, run, sc["protoA"], c2, refs, "faulted-response")
            if kind == "crash" and sc["servertype"] == "ThreadingTCPServer":
                restart = True   # the whole process died with its thread
            run.advance(1.0)
        now = run.sim.now
        if not restart and viol is None:
            n_before = len(run.fs.open_sizes)
            reqB, tlsB = proto.make_request(sc["protoB"], sel)
            c3 = run.client(reqB, tls=tlsB)
            run.go()
            run.shutdown()
            resps.append(bytes(c3.s2c))
            viol = _check_resp(sc, run, sc["protoB"], c3, refs, "listing-after-cut")
            if any(m == "r" for (_, m, _) in run.fs.open_sizes[n_before:]):
                counters["reader_opened_damaged_cache"] = 1
        counters = common.merge_counters(counters, common.run_counters(run))
    if restart and viol is None:
        run2 = _mkrun(sc, root, tp, start=now)
        runs.append(run2)
        with run2:
            run2.fs.watch_open = CACHEFILE
            reqB, tlsB = proto.make_request(sc["protoB"], sel)
            c3 = run2.client(reqB, tls=tlsB)
            run2.go()
            run2.shutdown()
            resps.append(bytes(c3.s2c))
            viol = _check_resp(sc, run2, sc["protoB"], c3, refs, "listing-after-cut")
            if any(m == "r" for (_, m, _) in run2.fs.open_sizes):
                counters["reader_opened_damaged_cache"] = 1
            counters["process_restart"] = 1
        counters = common.merge_counters(counters, common.run_counters(run2))
    fired = counters.get("stored_file_damaged", 0) or counters.get("fs_crash_in_write", 0) \
        or counters.get("fs_enospc", 0)
    if fired:
        shape = [kind, "dir-cache", common.cut_bucket(cut, size), sc["protoB"], sc["servertype"]]
    sim_s = sum(r.sim.now - sched.EPOCH for r in runs[-1:])
    return common.result(viol, shape, counters, common.run_digest(runs, resps), tp.rec, sim_s,
                         sum(r.sim.steps for r in runs), sum(r.sim.switches for r in runs))


def _exec_sweep(sc, root, refs, sel, tp):
    """Many prefix lengths of ONE cache file against one long-lived server: the stored
    cache is put back in full before each cut."""
    cachepath = os.path.join(root, sc["dir"], CACHEFILE)
    run = _mkrun(sc, root, tp)
    viol = None
    counters = {}
    resps = []
    shapes = []
    with run:
        run.fs.watch_open = CACHEFILE
        reqA, tlsA = proto.make_request(sc["protoA"], sel)
        c1 = run.client(reqA, tls=tlsA)
        run.go()
        viol = _check_resp(sc, run, sc["protoA"], c1, refs, "first-listing")
        with simfs.real_open(cachepath, "rb") as f:
            full = f.read()
        size = len(full)
        reqB, tlsB = proto.make_request(sc["protoB"], sel)
        for k in sc["cuts"]:
            if viol is not None or k > size:
                break
            with simfs.real_open(cachepath, "wb") as f:
                f.write(full[:k])
            simfs.real_utime(cachepath, (run.sim.now, run.sim.now))
            n0 = len(run.fs.open_sizes)
            c = run.client(reqB, tls=tlsB)
            run.go()
            resps.append(bytes(c.s2c))
            counters["stored_file_damaged"] = counters.get("stored_file_damaged", 0) + 1
            if any(m == "r" for (_, m, _) in run.fs.open_sizes[n0:]):
                counters["reader_opened_damaged_cache"] = counters.get("reader_opened_damaged_cache", 0) + 1
            v = _check_resp(sc, run, sc["protoB"], c, refs, "listing-after-cut")
            if v is not None:
                v["signature"]["fault"] = "trunc"
                v["detail"] = "cut=%d of %d: %s" % (k, size, v["detail"])
                viol = v
                sc_cut = k
            shapes.append(["trunc", "dir-cache", "k%d" % k, sc["protoB"], len(sc["spec"])])
        run.shutdown()
        counters = common.merge_counters(counters, common.run_counters(run))
    res = common.result(viol, None, counters, common.run_digest(run, resps), tp.rec,
                        run.sim.now - sched.EPOCH, run.sim.steps, run.sim.switches)
    res["shapes"] = shapes
    return res


def _exec_splice(sc, root, refs_old, refs_new, sel, tp):
    cacherel = "big/" + CACHEFILE
    run = _mkrun(sc, root, tp)
    resps = []
    viol = None
    counters = {}
    with run:
        run.fs.watch_open = CACHEFILE
        p = sc["protoA"]
        req, tls = proto.make_request(p, sel)
        c1 = run.client(req, tls=tls)              # t0: cache written (old directory)
        run.go()
        resps.append(bytes(c1.s2c))
        old, new = sc["mutate_same_len"]
        run.advance(1.0)
        os.rename(os.path.join(root, "big", "f%03d.txt" % old), os.path.join(root, "big", "f%03d.txt" % new))
        simfs.real_utime(os.path.join(root, "big"), (run.sim.now, run.sim.now))
        run.advance(178.0)                          # t0+179: the cache is still fresh for the reader
        run.fs.faults.append(simfs.Fault("read", cacherel, "stall", nth=sc["stall_read"], cut=2.5))
        cr = run.client(req, tls=tls)               # reader: stalls 2.5 s inside its n-th read of the cache
        cw = run.client(req, tls=tls, at=2.0)       # t0+181: expired for this one -> rescans and rewrites
        run.go()
        run.shutdown()
        for c in (cr, cw):
            got = proto.normalize(p, bytes(c.s2c))
            resps.append(bytes(c.s2c))
            if got not in (refs_old[p], refs_new[p]) and viol is None:
                kind = "empty" if not got else ("error" if not proto.is_success(p, got) else "spliced")
                viol = {"oracle": "reader-during-rewrite",
                        "signature": {"oracle": "reader-during-rewrite", "fault": "splice", "reply": kind},
                        "detail": "a reader that stalled inside its read of the cache while it was rewritten got a "
                                  "listing that is neither the old nor the new directory: %r" % common.short(got, 300)}
        counters = common.run_counters(run)
    shape = ["splice", len(sc["spec"]), sc["stall_read"], p] if counters.get("fs_stalled_reader") else None
    return common.result(viol, shape, counters, common.run_digest(run, resps), tp.rec,
                         run.sim.now - sched.EPOCH, run.sim.steps, run.sim.switches)


def _exec_race(sc, root, refs, sel, tp):
    cacherel = (sc["dir"] + "/" if sc["dir"] else "") + CACHEFILE
    run = _mkrun(sc, root, tp, preempt_p=sc["preempt_p"], sticky=0.5,
                 policy=sc.get("policy", "random"),
                 hot={"write": 0.5, "torn": 0.5, "close": 0.1}, cp_base=0.01)
    resps = []
    viol = None
    counters = {}
    with run:
        run.fs.watch_open = CACHEFILE
        if sc["torn"]:
            # cut points are fractions of whatever buffer is written
            f = simfs.Fault("write", cacherel + "*", "torn", nth="all")
            f.cuts = None
            f.fracs = sc["torn"]
            run.fs.faults.append(f)
        conns = []
        if sc.get("predamage"):
            req0, tls0 = proto.make_request(sc["protoA"], sel)
            c0 = run.client(req0, tls=tls0)
            run.go()
            resps.append(bytes(c0.s2c))
            cachepath = os.path.join(root, cacherel)
            if not os.path.exists(cachepath):
                raise sched.HarnessError("cache file was not written by the first listing")
            size = os.path.getsize(cachepath)
            with simfs.real_open(cachepath, "rb+") as f:
                if sc["predamage"] == "trunc":
                    f.truncate(common.cut_from_spec(sc["cut"], size))
                else:
                    f.write(b"\0" * size)
            simfs.real_utime(cachepath, (run.sim.now, run.sim.now))
            counters["stored_file_damaged"] = 1
            run.advance(1.0)
        for pname, dly in zip(sc["clients"], sc["stagger"]):
            req, tls = proto.make_request(pname, sel)
            conns.append((pname, run.client(req, tls=tls, at=dly)))
        st = run.go()
        if st not in ("idle", "done"):
            viol = {"oracle": "liveness", "signature": {"oracle": "liveness", "fault": "race", "why": st},
                    "detail": "run ended with %s" % st}
        for pname, c in conns:
            resps.append(bytes(c.s2c))
            if viol is None:
                viol = _check_resp(sc, run, pname, c, refs, "concurrent-listing")
        sizes = [s for (_, m, s) in run.fs.open_sizes if m == "r"]
        final = os.path.getsize(os.path.join(root, cacherel)) if os.path.exists(
            os.path.join(root, cacherel)) else 0
        partial = sorted(set(s for s in sizes if s < final))
        if partial:
            counters["race_reader_saw_partial"] = 1
        # one more sequential request within the lifetime: the cache left behind must be usable
        if viol is None:
            run.advance(1.0)
            req, tls = proto.make_request(sc["protoB"], sel)
            c = run.client(req, tls=tls)
            run.go()
            resps.append(bytes(c.s2c))
            viol = _check_resp(sc, run, sc["protoB"], c, refs, "listing-after-race")
        run.shutdown()
        counters = common.merge_counters(counters, common.run_counters(run))
    shape = None
    if run.sim.switches > 2 * len(sc["clients"]) + 4:
        shape = ["race", len(sc["clients"]), sc["servertype"], tuple(partial)[:3],
                 common.digest(run.sim.switch_trace)]
    return common.result(viol, shape, counters, common.run_digest(run, resps), tp.rec,
                         run.sim.now - sched.EPOCH, run.sim.steps, run.sim.switches)


def _exec_zip(sc, root, refs, sel, tp):
    d = (sc["dir"] + "/") if sc["dir"] else ""
    idxrel = d + ".cache.pygopherd.zip3.arc.zip" + sc["zipfile"]
    idxpath = os.path.join(root, idxrel)
    run = _mkrun(sc, root, tp)
    resps = []
    counters = {}
    viol = None
    cut = 0
    size = 0
    with run:
        run.fs.watch_open = sc["zipfile"]
        reqA, tlsA = proto.make_request(sc["protoA"], sel)
        fk = sc["zipfault"]
        if fk in ("crash", "enospc"):
            c0 = run.client(reqA, tls=tlsA)
            run.go()
            resps.append(bytes(c0.s2c))
            viol = _check_resp(sc, run, sc["protoA"], c0, refs, "first-listing")
            size = os.path.getsize(idxpath) if os.path.exists(idxpath) else 0
            cut = common.cut_from_spec(sc["cut"], max(size, 1)) % 64
            run.advance(1.0)
            run.fs.faults.append(simfs.Fault("write", idxrel, fk, nth=0, cut=cut))
            c1 = run.client(reqA, tls=tlsA)
            run.go()
            resps.append(bytes(c1.s2c))
            if fk == "enospc" and viol is None:
                viol = _check_resp(sc, run, sc["protoA"], c1, refs, "faulted-response")
        else:
            c1 = run.client(reqA, tls=tlsA)
            run.go()
            resps.append(bytes(c1.s2c))
            viol = _check_resp(sc, run, sc["protoA"], c1, refs, "first-listing")
            if os.path.exists(idxpath):
                size = os.path.getsize(idxpath)
                cut = common.cut_from_spec(sc["cut"], size)
                with simfs.real_open(idxpath, "rb+") as f:
                    if fk == "trunc":
                        f.truncate(cut)
                    else:
                        f.write(b"\0" * size)
                counters["stored_file_damaged"] = 1
        restart = (fk == "crash" and sc["servertype"] == "ThreadingTCPServer")
        now = run.sim.now + 1.0
        if not restart and viol is None:
            run.advance(1.0)
            reqB, tlsB = proto.make_request(sc["protoB"], sel)
            c3 = run.client(reqB, tls=tlsB)
            run.go()
            run.shutdown()
            resps.append(bytes(c3.s2c))
            viol = _check_resp(sc, run, sc["protoB"], c3, refs, "listing-after-cut")
        counters = common.merge_counters(counters, common.run_counters(run))
        idx_read = [1 for (_, m, _) in run.fs.open_sizes if m == "r"]
    runs = [run]
    if restart and viol is None:
        run2 = _mkrun(sc, root, tp, start=now)
        runs.append(run2)
        with run2:
            reqB, tlsB = proto.make_request(sc["protoB"], sel)
            c3 = run2.client(reqB, tls=tlsB)
            run2.go()
            run2.shutdown()
            resps.append(bytes(c3.s2c))
            viol = _check_resp(sc, run2, sc["protoB"], c3, refs, "listing-after-cut")
        counters = common.merge_counters(counters, common.run_counters(run2))
    fired = counters.get("stored_file_damaged", 0) or counters.get("fs_crash_in_write", 0) \
        or counters.get("fs_enospc", 0)
    shape = ["zip", sc["zipfile"], fk, common.cut_bucket(cut, max(size, 1)), sc["protoB"],
             sc["servertype"]] if fired else None
    return common.result(viol, shape, counters, common.run_digest(runs, resps), tp.rec,
                         runs[-1].sim.now - sched.EPOCH,
                         sum(r.sim.steps for r in runs), sum(r.sim.switches for r in runs))


def shrink(sc):
    """Simpler scenarios: fewer world entries, simpler protocols, no torn cuts."""
    if sc["kind"] == "trunc-sweep":
        if len(sc["cuts"]) > 1:
            for k in sc["cuts"]:
                yield dict(sc, cuts=[k])
        return
    spec = sc["spec"]
    keep = [e for e in spec if e["k"] == "dir" and e["p"] == sc["dir"]]
    rest = [e for e in spec if e not in keep]
    for cand in common.drop_each(rest):
        c = dict(sc)
        c["spec"] = keep + cand
        yield c
    for key in ("protoA", "protoB"):
        if sc[key] != "gopher":
            c = dict(sc)
            c[key] = "gopher"
            yield c
    if sc.get("clients") and len(sc["clients"]) > 2:
        c = dict(sc)
        c["clients"] = sc["clients"][:-1]
        c["stagger"] = sc["stagger"][:-1]
        yield c
    if sc.get("clients") and any(p != "gopher" for p in sc["clients"]):
        c = dict(sc)
        c["clients"] = ["gopher"] * len(sc["clients"])
        yield c
    if sc.get("torn"):
        c = dict(sc)
        c["torn"] = sc["torn"][:-1]
        yield c
    if sc["servertype"] != "ThreadingTCPServer":
        c = dict(sc)
        c["servertype"] = "ThreadingTCPServer"
        yield c
