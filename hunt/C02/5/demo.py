#!/usr/bin/env python
"""
C02 hunt, finding 5 (weakest of the five): a Gemini request is "an absolute
URL, including a scheme" and URI schemes are case-insensitive (RFC 3986 3.1:
"An implementation should accept uppercase letters as equivalent to lowercase
in scheme names"), but GeminiProtocol only claims lines that start with the
exact lower-case bytes "gemini://".  The same URL written GEMINI://... or
Gemini://... over TLS is answered by SecureGopherProtocol with a gopher error
line, which a Gemini client cannot parse.

Run as:  cd /tmp/wt4-C02 && /venv/bin/python HUNT/5/demo.py
Exits 0 if equivalent spellings of one Gemini URL are answered by the same
protocol (Gemini) with the same bytes, non-zero otherwise.
"""
import io
import os
import shutil
import sys
import tempfile
import warnings

ROOT = os.path.dirname(os.path.dirname(os.path.dirname(os.path.abspath(__file__))))
sys.path.insert(0, ROOT)
os.chdir(ROOT)
warnings.simplefilter("ignore")

from pygopherd import initialization, testutil  # noqa: E402
from pygopherd.protocols import ProtocolMultiplexer  # noqa: E402


class KeepOpen(io.BytesIO):
    def close(self):  # keep the bytes readable after finish()
        pass


def make_config(docroot):
    config = initialization.init_config("conf/pygopherd.conf")  # shipped config
    config.set("pygopherd", "root", docroot)
    config.set("pygopherd", "port", "0")
    config.set("pygopherd", "servertype", "ThreadingTCPServer")
    config.set("logger", "logmethod", "none")
    initialization.init_logger(config, "conf/pygopherd.conf")
    initialization.init_exceptions(config)
    initialization.init_mimetypes(config)
    return config


def serve(config, server, raw, tls=False):
    """Feed the bytes `raw` to the real GopherRequestHandler.handle();
    return (name of the protocol class that answered, response bytes)."""
    rfile, wfile = KeepOpen(raw), KeepOpen()
    cls = testutil.MockSSLRequest if tls else testutil.MockRequest
    handler = testutil.MockRequestHandler(
        cls(rfile, wfile), ("10.77.77.77", "7777"), server
    )
    answered = []
    real = ProtocolMultiplexer.getProtocol

    def spy(*a, **kw):
        p = real(*a, **kw)
        answered.append(p)
        return p

    ProtocolMultiplexer.getProtocol = spy
    try:
        handler.handle()
    finally:
        ProtocolMultiplexer.getProtocol = real
    return answered[0], wfile.getvalue()



import re

from pygopherd.protocols.gemini import GeminiProtocol  # noqa: E402


def main():
    docroot = tempfile.mkdtemp(prefix="c02-5-")
    try:
        with open(os.path.join(docroot, "hello.txt"), "w") as fp:
            fp.write("HELLO-BODY\n")
        config = make_config(docroot)
        server = initialization.get_server(config)
        server.server_close()

        ref_proto, ref_out = serve(config, server, b"gemini://example.org/hello.txt\r\n", tls=True)
        assert isinstance(ref_proto, GeminiProtocol), ref_proto
        assert ref_out == b"20 text/plain\r\nHELLO-BODY\n", ref_out

        failures = []
        for scheme in (b"gemini", b"GEMINI", b"Gemini", b"gEMINI"):
            line = scheme + b"://example.org/hello.txt\r\n"
            proto, out = serve(config, server, line, tls=True)
            name = type(proto).__name__
            print("TLS %-40r -> %-22s %r" % (line, name, out[:60]))
            is_gemini_answer = re.match(rb"^[1-6][0-9] [^\r\n]*\r\n", out) is not None
            if not isinstance(proto, GeminiProtocol) or not is_gemini_answer or out != ref_out:
                failures.append((line, name, out))

        if failures:
            print()
            print("PROPERTY C02 VIOLATED: the same Gemini URL, with its (case-insensitive)")
            print("scheme spelled differently, was not claimed by GeminiProtocol on TLS:")
            for line, name, out in failures:
                print("  line=%r answered by %s: %r" % (line, name, out[:80]))
            return 1
        print("ok")
        return 0
    finally:
        shutil.rmtree(docroot, ignore_errors=True)


if __name__ == "__main__":
    sys.exit(main())
