#!/usr/bin/env python
"""
C19 demo: a setuid=/setgid= account whose numeric id is 4294967295 == (uid_t)-1.

pwd.getpwnam()/grp.getgrnam() hand that id back as -1, and
os.setreuid(-1, -1) / os.setregid(-1, -1) mean "leave unchanged": they
succeed and do nothing.  init_security() does not notice, logs
"Switched to uid -1" and start-up completes -- still root:root.

The check is on the property, not on the implementation: for every
combination of usechroot / setuid / setgid, a start-up that was told to
switch user (group) must either abort, or end up with no real/effective/
saved uid (gid) equal to the privileged one it started with.

Runs the real initialization.initialize() in a forked child.  When run as
root (the normal case) the child enters a private mount namespace and
bind-mounts a temporary passwd/group (system files + one "gopher" line) over
/etc/passwd and /etc/group, and uses the real chroot/setgroups/setregid/
setreuid; nothing outside the child is modified.  When that is impossible
(not root / no CAP_SYS_ADMIN) it falls back to patching pwd/grp to return
what CPython returns for such an entry and a small model of the kernel's
set*id semantics.
"""
import ctypes
import itertools
import json
import os
import sys
import tempfile
import warnings

ROOT = os.path.dirname(os.path.dirname(os.path.dirname(os.path.abspath(__file__))))
sys.path.insert(0, ROOT)
os.chdir(ROOT)
warnings.simplefilter("ignore")

from pygopherd import initialization  # noqa: E402

BAD_ID = 4294967295  # (uid_t)-1


def make_config(docroot, usechroot, setuid, setgid):
    conf = open("conf/pygopherd.conf").read()
    conf = conf.replace("usechroot = yes", "usechroot = %s" % usechroot)
    conf = conf.replace("root = /var/gopher", "root = %s" % docroot)
    conf = conf.replace("port = 70", "port = 0")
    conf = conf.replace("logmethod = syslog", "logmethod = file")
    conf = conf.replace("pidfile = /var/run/pygopherd/pygopherd.pid", "")
    extra = []
    if setuid:
        extra.append("setuid = %s" % setuid)
    if setgid:
        extra.append("setgid = %s" % setgid)
    conf = conf.replace("[pygopherd]", "[pygopherd]\n" + "\n".join(extra), 1)
    path = os.path.join(tempfile.mkdtemp(), "pygopherd.conf")
    with open(path, "w") as f:
        f.write(conf)
    return path


def overlay_accounts():
    """Private mount namespace + temp passwd/group with the odd account."""
    os.unshare(os.CLONE_NEWNS)
    libc = ctypes.CDLL(None, use_errno=True)
    MS_BIND, MS_REC, MS_PRIVATE = 4096, 16384, 1 << 18
    if libc.mount(b"none", b"/", None, MS_REC | MS_PRIVATE, None) != 0:
        raise OSError(ctypes.get_errno(), "mount --make-rprivate /")
    for name, line in (
        ("passwd", "gopher:x:%d:%d:gopher:/:/bin/false\n" % (BAD_ID, BAD_ID)),
        ("group", "gopher:x:%d:\n" % BAD_ID),
    ):
        tmp = tempfile.NamedTemporaryFile("w", delete=False)
        tmp.write(open("/etc/" + name).read() + line)
        tmp.close()
        os.chmod(tmp.name, 0o644)
        if libc.mount(tmp.name.encode(), ("/etc/" + name).encode(), None, MS_BIND, None):
            raise OSError(ctypes.get_errno(), "bind mount over /etc/" + name)


def model_kernel():
    """Fallback when we are not root: patch the calls with a model."""
    import grp
    import pwd

    state = {"uid": [0, 0, 0], "gid": [0, 0, 0], "groups": [0, 4, 24]}
    real_pw, real_gr = pwd.getpwnam, grp.getgrnam

    def getpwnam(name):
        if name == "gopher":  # what CPython returns for uid 4294967295
            return pwd.struct_passwd(("gopher", "x", -1, -1, "", "/", "/bin/false"))
        return real_pw(name)

    def getgrnam(name):
        if name == "gopher":
            return grp.struct_group(("gopher", "x", -1, []))
        return real_gr(name)

    def setre(kind):
        def f(r, e):
            cur = state[kind]
            if r != -1:
                cur[0] = r
            if e != -1:
                cur[1] = e
            if r != -1 or (e != -1):
                cur[2] = cur[1]

        return f

    pwd.getpwnam, grp.getgrnam = getpwnam, getgrnam
    os.setreuid, os.setregid = setre("uid"), setre("gid")
    os.setgroups = lambda g: state.__setitem__("groups", list(g))
    os.chroot = lambda p: None
    os.chdir = lambda p: None
    os.getresuid = lambda: tuple(state["uid"])
    os.getresgid = lambda: tuple(state["gid"])
    os.getgroups = lambda: list(state["groups"])


def start_up(usechroot, setuid, setgid):
    """Run the real start-up in a child; return what it ended up as."""
    docroot = tempfile.mkdtemp()
    os.chmod(docroot, 0o755)
    conf = make_config(docroot, usechroot, setuid, setgid)
    r, w = os.pipe()
    sys.stdout.flush()
    pid = os.fork()
    if pid == 0:
        os.close(r)
        out = {}
        try:
            mode = "real"
            try:
                if os.geteuid() != 0:
                    raise PermissionError("not root")
                overlay_accounts()
            except Exception as e:  # no privilege for the namespace
                mode = "model (%s)" % e
                model_kernel()
            out["mode"] = mode
            out["before"] = [os.getresuid(), os.getresgid()]
            try:
                server = initialization.initialize(conf)
                out["started"] = True
                server.server_close()
            except BaseException as e:
                out["started"] = False
                out["error"] = repr(e)
            out["after"] = [os.getresuid(), os.getresgid(), os.getgroups()]
        except BaseException as e:
            out["harness_error"] = repr(e)
        os.write(w, json.dumps(out).encode())
        os._exit(0)
    os.close(w)
    data = b""
    while True:
        chunk = os.read(r, 65536)
        if not chunk:
            break
        data += chunk
    os.waitpid(pid, 0)
    return json.loads(data)


def main():
    violations = []
    # control: an ordinary account must pass the same check
    accounts = [("nobody", "nogroup"), ("gopher", "gopher")]
    for user, group in accounts:
        for usechroot, su, sg in itertools.product(("yes", "no"), (1, 0), (1, 0)):
            if not (su or sg):
                continue
            res = start_up(usechroot, user if su else None, group if sg else None)
            if "harness_error" in res:
                print("harness problem:", res)
                return 2
            label = "usechroot=%s setuid=%s setgid=%s" % (
                usechroot, user if su else "-", group if sg else "-")
            if not res["started"]:
                print("OK   %-48s start-up aborted: %s" % (label, res["error"]))
                continue
            (uid0, gid0), (uids, gids, groups) = res["before"], res["after"]
            bad = []
            if su and uid0[1] in uids:
                bad.append("setuid was configured but real/effective/saved uid is "
                           "still %s (the uid it started with)" % (uids,))
            if sg and gid0[1] in gids:
                bad.append("setgid was configured but real/effective/saved gid is "
                           "still %s (the gid it started with)" % (gids,))
            if bad:
                violations.append(label)
                print("FAIL %-48s start-up reported success [%s]" % (label, res["mode"]))
                for b in bad:
                    print("       " + b)
            else:
                print("OK   %-48s running as uid=%s gid=%s groups=%s"
                      % (label, uids, gids, groups))

    if violations:
        print()
        print("C19 VIOLATED: with the account 'gopher' (uid/gid 4294967295 in "
              "passwd/group) start-up 'switched' user/group, logged success and "
              "would serve with the privileges it started with, in %d option "
              "combinations." % len(violations))
        return 1
    print("property held for all combinations")
    return 0


if __name__ == "__main__":
    sys.exit(main())
