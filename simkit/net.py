"""Simulated TCP: listener, connections, the server-side socket object handed
to socketserver, and a stub TLS context.

The stdlib layers above the socket are real: ``socket.SocketIO`` +
``io.BufferedReader`` for rfile, ``socketserver._SocketWriter`` for wfile.
"""
import errno
import io
import socket
import ssl
import struct
from collections import deque

from . import sched

HELLO_PREFIX = b"\x16\x03\x01"


def fake_client_hello(payload=b"simhello"):
    return HELLO_PREFIX + struct.pack(">H", len(payload)) + payload


class SendFault:
    """Fail the k-th sendall (0-based) on a connection, and every later one."""

    def __init__(self, index, kind, partial=0):
        self.index = index
        self.kind = kind
        self.partial = partial
        self.fired = 0

    def make_exc(self):
        k = self.kind
        if k == "EPIPE":
            return BrokenPipeError(errno.EPIPE, "Broken pipe")
        if k == "ECONNRESET":
            # Linux: the first send after an RST fails with ECONNRESET, every later one with EPIPE
            if self.fired > 1:
                return BrokenPipeError(errno.EPIPE, "Broken pipe")
            return ConnectionResetError(errno.ECONNRESET, "Connection reset by peer")
        if k == "TIMEOUT1":
            return TimeoutError("timed out")
        if k == "SSLTIMEOUT":
            return TimeoutError("The write operation timed out")
        if k == "EAGAIN":
            return BlockingIOError(errno.EAGAIN, "Resource temporarily unavailable")
        if k == "ETIMEDOUT":
            return TimeoutError(errno.ETIMEDOUT, "Connection timed out")
        raise ValueError(k)


class Conn:
    """One TCP connection (both directions) as the simulator sees it."""

    def __init__(self, net, cid, client_addr):
        self.net = net
        self.id = cid
        self.client_addr = client_addr
        self.c2s = deque()        # segments sent by the client, not yet read
        self.c2s_eof = False      # client half-closed (FIN)
        self.reset = False        # client reset the connection
        self.s2c = bytearray()    # everything the client has received
        self.s2c_chunks = []      # sizes of each successful sendall
        self.sndbuf = None        # None = unbounded; else capacity in bytes
        self.in_flight = 0        # bytes in the send buffer not yet drained
        self.refs = 1             # descriptor references (simulated fork)
        self.server_closed = False
        self.server_shut_wr = False
        self.closed_at = None
        self.accepted = False
        self.send_calls = 0
        self.send_fault = None
        self.write_after_close = 0
        self.rcvtimeo = None
        self.sndtimeo = None
        self.tls = False
        self.tls_wrapped = False
        self.peeks = []
        self.last_client_byte_at = None
        self.first_byte_at = None

    # ---- client side (called from events / driver; never blocks)
    def client_send(self, data):
        if data:
            self.c2s.append(bytes(data))
            self.last_client_byte_at = self.net.sim.now

    def client_shut_wr(self):
        self.c2s_eof = True

    def client_reset(self):
        self.reset = True
        self.c2s.clear()

    def client_drain(self, n=None):
        if n is None or n > self.in_flight:
            n = self.in_flight
        self.in_flight -= n

    def server_done(self):
        return self.server_closed or self.server_shut_wr


class SimSocket:
    """Server-side endpoint of a Conn.  Duck-types socket.socket as far as
    socketserver, socket.SocketIO and pygopherd need."""

    def __init__(self, conn):
        self._conn = conn
        self._net = conn.net
        self._closed = False
        self._io_refs = 0
        self._timeout = None
        self._detached = False

    # -- identity
    family = socket.AF_INET
    type = socket.SOCK_STREAM
    proto = 0

    def fileno(self):
        return -1 if self._closed else 1000 + self._conn.id

    def getpeername(self):
        return self._conn.client_addr

    def getsockname(self):
        return self._net.listen_addr

    def settimeout(self, t):
        self._timeout = t

    def gettimeout(self):
        return self._timeout

    def setblocking(self, flag):
        self._timeout = None if flag else 0.0

    def setsockopt(self, level, opt, value):
        if level == socket.SOL_SOCKET and opt in (socket.SO_RCVTIMEO, socket.SO_SNDTIMEO):
            secs, usecs = struct.unpack("ll", value)
            t = secs + usecs / 1e6
            if opt == socket.SO_RCVTIMEO:
                self._conn.rcvtimeo = t or None
            else:
                self._conn.sndtimeo = t or None

    def getsockopt(self, level, opt, buflen=None):
        return 0

    # -- reading
    def _rcv_timeout(self):
        if self._timeout is not None:
            return self._timeout
        return self._conn.rcvtimeo

    def recv(self, n, flags=0):
        c = self._conn
        sim = self._net.sim
        if self._closed:
            raise OSError(errno.EBADF, "Bad file descriptor")
        sim.yield_point("recv")
        if not (c.c2s or c.c2s_eof or c.reset):
            ok = sim.block(lambda: bool(c.c2s) or c.c2s_eof or c.reset,
                           self._rcv_timeout(), "recv")
            if not ok:
                self._net.count("recv_timeout")
                sim.note("recv-timeout", c.id)
                if self._timeout is not None:
                    raise TimeoutError("timed out")
                raise BlockingIOError(errno.EAGAIN, "Resource temporarily unavailable")
        if c.reset:
            raise ConnectionResetError(errno.ECONNRESET, "Connection reset by peer")
        if c.c2s:
            seg = c.c2s[0]
            out = seg[:n]
            if flags & socket.MSG_PEEK:
                c.peeks.append(out)
                return out
            if c.first_byte_at is None:
                c.first_byte_at = sim.now
            if len(seg) > n:
                c.c2s[0] = seg[n:]
            else:
                c.c2s.popleft()
            return out
        return b""  # EOF

    def recv_into(self, buf, nbytes=0, flags=0):
        mv = memoryview(buf)
        n = nbytes or len(mv)
        data = self.recv(n, flags)
        mv[: len(data)] = data
        return len(data)

    # -- writing
    def _snd_timeout(self):
        if self._timeout is not None:
            return self._timeout
        return self._conn.sndtimeo

    def sendall(self, data, flags=0):
        c = self._conn
        sim = self._net.sim
        if self._closed:
            c.write_after_close += 1
            raise OSError(errno.EBADF, "Bad file descriptor")
        sim.yield_point("send")
        # the kernel copies the caller's buffer when the call is made, i.e. after any switch that happens
        # before it: a buffer another thread has refilled meanwhile goes out with the new contents
        data = bytes(data)
        idx = c.send_calls
        c.send_calls += 1
        f = c.send_fault
        if f is not None and idx >= f.index:
            if f.fired == 0 and f.partial:
                c.s2c += data[: f.partial]
            f.fired += 1
            self._net.count("send_fault_" + f.kind)
            sim.note("send-fault", c.id, idx, f.kind)
            exc = f.make_exc()
            if isinstance(exc, BrokenPipeError):
                self._net.epipe()
            raise exc
        if c.reset:
            self._net.epipe()
            raise BrokenPipeError(errno.EPIPE, "Broken pipe")
        if c.server_shut_wr or c.server_closed:
            c.write_after_close += 1
            self._net.epipe()
            raise BrokenPipeError(errno.EPIPE, "Broken pipe")
        if c.sndbuf is None:
            c.s2c += data
        else:
            off = 0
            while off < len(data):
                room = c.sndbuf - c.in_flight
                if room <= 0:
                    self._net.count("send_blocked")
                    ok = sim.block(lambda: c.in_flight < c.sndbuf or c.reset,
                                   self._snd_timeout(), "send")
                    if c.reset:
                        raise ConnectionResetError(errno.ECONNRESET, "Connection reset by peer")
                    if not ok:
                        self._net.count("send_timeout")
                        sim.note("send-timeout", c.id)
                        if self._timeout is not None:
                            raise TimeoutError("timed out")
                        raise BlockingIOError(errno.EAGAIN, "Resource temporarily unavailable")
                    continue
                n = min(room, len(data) - off)
                c.s2c += data[off: off + n]
                c.in_flight += n
                off += n
        c.s2c_chunks.append(len(data))
        return None

    def send(self, data, flags=0):
        self.sendall(data, flags)
        return len(data)

    # -- closing
    def shutdown(self, how):
        c = self._conn
        if self._closed:
            raise OSError(errno.EBADF, "Bad file descriptor")
        if c.reset:
            raise OSError(errno.ENOTCONN, "Transport endpoint is not connected")
        self._net.sim.yield_point("shutdown")
        if how in (socket.SHUT_WR, socket.SHUT_RDWR):
            if not c.server_shut_wr:
                c.server_shut_wr = True
                c.closed_at = self._net.sim.now
                self._net.sim.note("shut-wr", c.id)

    def _real_close(self):
        if self._closed:
            return
        self._closed = True
        if self._detached:
            return
        c = self._conn
        self._net.release_ref(c, self._net.sim.me())

    def close(self):
        self._closed_requested = True
        if self._io_refs <= 0:
            self._real_close()

    def _decref_socketios(self):
        if self._io_refs > 0:
            self._io_refs -= 1
        if getattr(self, "_closed_requested", False):
            self.close()

    def detach(self):
        self._detached = True
        self._closed = True
        return 1000 + self._conn.id

    def clone_for_child(self):
        """fork(): the child has its own copy of the socket object (same
        connection; the descriptor reference is counted by Net.fork_refs)."""
        new = type(self)(self._conn)
        new._timeout = self._timeout
        return new

    def makefile(self, mode="r", buffering=None, **kw):
        if not set(mode) <= {"r", "w", "b"}:
            raise ValueError("invalid mode %r" % mode)
        writing = "w" in mode
        reading = "r" in mode or not writing
        rawmode = ("r" if reading else "") + ("w" if writing else "")
        raw = socket.SocketIO(self, rawmode)
        self._io_refs += 1
        if buffering is None or buffering < 0:
            buffering = io.DEFAULT_BUFFER_SIZE
        if buffering == 0:
            return raw
        if reading and writing:
            return io.BufferedRWPair(raw, raw, buffering)
        if reading:
            return io.BufferedReader(raw, buffering)
        return io.BufferedWriter(raw, buffering)

    def __enter__(self):
        return self

    def __exit__(self, *a):
        self.close()


class SimSSLSocket(SimSocket, ssl.SSLSocket):
    """isinstance(x, ssl.SSLSocket) is all pygopherd looks at (same trick as
    the repository's own MockSSLRequest)."""

    def __init__(self, conn):
        SimSocket.__init__(self, conn)

    def __del__(self):
        pass

    # The kernel's SO_RCVTIMEO / SO_SNDTIMEO make the underlying read()/write() fail with EAGAIN; for a
    # socket without a Python-level timeout the ssl module takes that for "try again" and retries for
    # ever.  Only settimeout() makes an SSL socket time out.
    def _rcv_timeout(self):
        return self._timeout

    def _snd_timeout(self):
        return self._timeout

    def unwrap(self):
        """Orderly TLS shutdown: a close_notify has to be written to (and read from) the peer."""
        c = self._conn
        self._net.sim.yield_point("send")
        f = c.send_fault
        if f is not None and c.send_calls >= f.index:
            f.fired += 1
            raise f.make_exc()
        if c.reset:
            raise ConnectionResetError(errno.ECONNRESET, "Connection reset by peer")
        return self


class FakeTLSContext:
    """Stub for ssl.SSLContext: consumes a fake ClientHello record with
    blocking reads and returns a SimSSLSocket on the same connection."""

    def __init__(self, net):
        self.net = net
        self.wrap_calls = 0

    def wrap_socket(self, sock, server_side=False, **kw):
        self.wrap_calls += 1
        conn = sock._conn
        conn.tls_wrapped = True
        self.net.sim.note("tls-wrap", conn.id)
        need = 5
        hdr = b""
        def recv_retrying(k):
            # (the handshake reads through the same retry loop)
            while True:
                try:
                    return sock.recv(k)
                except BlockingIOError:
                    if sock._timeout is not None:
                        raise
                    self.net.count("tls_read_retried_after_kernel_timeout")

        while len(hdr) < need:
            d = recv_retrying(need - len(hdr))
            if not d:
                raise ssl.SSLError(ssl.SSL_ERROR_EOF, "EOF occurred in violation of protocol")
            hdr += d
        if hdr[:3] != HELLO_PREFIX:
            raise ssl.SSLError(ssl.SSL_ERROR_SSL, "wrong version number")
        ln = struct.unpack(">H", hdr[3:5])[0]
        body = b""
        while len(body) < ln:
            d = recv_retrying(ln - len(body))
            if not d:
                raise ssl.SSLError(ssl.SSL_ERROR_EOF, "EOF occurred in violation of protocol")
            body += d
        new = SimSSLSocket(conn)
        new._timeout = sock._timeout
        sock.detach()
        return new


class SimListenSocket:
    def __init__(self, net):
        self._net = net
        self.opts = {}
        self.closed = False

    def setsockopt(self, level, opt, value):
        self.opts[(level, opt)] = value

    def getsockopt(self, level, opt, buflen=None):
        return self.opts.get((level, opt), 0)

    def bind(self, addr):
        host, port = addr
        self._net.listen_addr = (host or "0.0.0.0", port)
        self._net.bound = True

    def listen(self, backlog=5):
        self._net.listening = True

    def getsockname(self):
        return self._net.listen_addr

    def fileno(self):
        return 999

    def accept(self):
        net = self._net
        net.sim.yield_point("accept")
        if not net.accept_q:
            raise BlockingIOError(errno.EAGAIN, "Resource temporarily unavailable")
        conn = net.accept_q.popleft()
        conn.accepted = True
        # accepted sockets inherit SO_RCVTIMEO / SO_SNDTIMEO on Linux
        for opt, attr in ((socket.SO_RCVTIMEO, "rcvtimeo"), (socket.SO_SNDTIMEO, "sndtimeo")):
            v = self.opts.get((socket.SOL_SOCKET, opt))
            if v is not None:
                secs, usecs = struct.unpack("ll", v)
                setattr(conn, attr, (secs + usecs / 1e6) or None)
        s = SimSocket(conn)
        net.sim.note("accept", conn.id)
        net.register_ref(conn, net.sim.me())
        return s, conn.client_addr

    def close(self):
        self.closed = True

    def settimeout(self, t):
        pass


class Net:
    def __init__(self, sim):
        self.sim = sim
        self.listen_addr = ("0.0.0.0", 0)
        self.bound = False
        self.listening = False
        self.accept_q = deque()
        self.on_epipe = None
        self.conns = []
        self.counters = {}
        self.listener = SimListenSocket(self)
        # descriptor ownership per simulated process: {proc: {conn.id: count}}
        self.fdtable = {}

    def count(self, k, n=1):
        self.counters[k] = self.counters.get(k, 0) + n

    def epipe(self):
        """A write to a connection whose peer is gone: the kernel also sends SIGPIPE.  Python ignores that
        signal from start-up; a program that restored the default disposition is killed by it."""
        if self.on_epipe is not None:
            self.on_epipe()

    def connect(self, client_addr=None):
        cid = len(self.conns)
        if client_addr is None:
            client_addr = ("10.0.0.%d" % (1 + cid % 250), 40000 + cid)
        c = Conn(self, cid, client_addr)
        c.refs = 0
        self.conns.append(c)
        self.accept_q.append(c)
        self.sim.note("connect", cid)
        return c

    # ---- descriptor table (for simulated fork)
    def register_ref(self, conn, actor):
        proc = actor.proc if actor is not None else 0
        conn.refs += 1
        t = self.fdtable.setdefault(proc, {})
        t[conn.id] = t.get(conn.id, 0) + 1

    def release_ref(self, conn, actor):
        proc = actor.proc if actor is not None else 0
        t = self.fdtable.setdefault(proc, {})
        if t.get(conn.id, 0) > 0:
            t[conn.id] -= 1
            if not t[conn.id]:
                del t[conn.id]
        conn.refs -= 1
        if conn.refs <= 0 and not conn.server_closed:
            conn.server_closed = True
            if conn.closed_at is None:
                conn.closed_at = self.sim.now
            self.sim.note("closed", conn.id)

    def fork_refs(self, parent_proc, child_proc):
        """fork(): the child gets a reference to every descriptor of the parent."""
        pt = self.fdtable.get(parent_proc, {})
        ct = self.fdtable.setdefault(child_proc, {})
        for cid, n in pt.items():
            ct[cid] = ct.get(cid, 0) + n
            self.conns[cid].refs += n

    def drop_proc(self, proc):
        """process exit: every descriptor it still holds is closed."""
        t = self.fdtable.pop(proc, {})
        for cid, n in t.items():
            c = self.conns[cid]
            c.refs -= n
            if c.refs <= 0 and not c.server_closed:
                c.server_closed = True
                if c.closed_at is None:
                    c.closed_at = self.sim.now
                self.sim.note("closed", c.id)
