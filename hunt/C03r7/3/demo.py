#!/usr/bin/env python
"""C03 hunt, finding 3.

Handler list with ZIP.ZIPHandler and file.CompressedFileHandler (both shipped,
both documented), decompressors = {'gzip': 'zcat'} as in the project's own
tests.  A ZIP archive contains a gzip-compressed member (notes.txt.gz).

Inside the archive the member is offered by CompressedFileHandler (the menu of
the archive lists it as a type-0 text document), but its write() hands the
archive member to subprocess.run(stdin=<ZipExtFile>), which needs a real file
descriptor: io.UnsupportedOperation("fileno") is raised AFTER the protocol has
sent its success status.  UnsupportedOperation is an OSError without errno or
strerror, so:

  * Gopher       "3None<TAB><TAB>error.host<TAB>1"   (error text "None")
  * Gopher+      "+-2" followed by a second status "--2 ... fileno"
  * HTTP / WAP   "HTTP/1.0 200 OK ..." followed by "HTTP/1.0 404 Not Found ..."
  * Gemini       "20 text/plain", no body, traceback
  * Spartan      "2 text/plain", no body, traceback

The same file outside the archive is decompressed and served correctly.
Exit status 0 iff every answer is exactly one well-formed response.
"""
import builtins
import contextlib
import errno
import io
import os
import re
import shutil
import sys
import tempfile
import warnings

warnings.simplefilter("ignore")
ROOT = os.path.dirname(os.path.dirname(os.path.dirname(os.path.abspath(__file__))))
sys.path.insert(0, ROOT)
os.chdir(ROOT)

from pygopherd import GopherExceptions, gopherentry, initialization, logger, testutil  # noqa: E402
from pygopherd.handlers import HandlerMultiplexer, UMN  # noqa: E402
from pygopherd.handlers import base as hbase  # noqa: E402

LOG = []


def setup(root):
    config = initialization.init_config("conf/pygopherd.conf")
    config.set("pygopherd", "root", root)
    HandlerMultiplexer.handlers = None
    HandlerMultiplexer.rootpath = None
    hbase.rootpath = None
    gopherentry.mapping = None
    gopherentry.eaexts = None
    UMN.extstrip = None
    logger.log = LOG.append
    initialization.init_mimetypes(config)
    GopherExceptions.tracebacks = 0
    return config


class FakeServer:
    server_name = "localhost"
    server_port = 70


def request(config, data, tls=False):
    rfile = io.BytesIO(data.encode("utf-8", "surrogateescape"))
    wfile = io.BytesIO()
    wfile.close = lambda: None
    server = FakeServer()
    server.config = config
    sock = (testutil.MockSSLRequest if tls else testutil.MockRequest)(rfile, wfile)
    handler = testutil.MockRequestHandler(sock, ("10.77.77.77", "7777"), server)
    del LOG[:]
    stderr = io.StringIO()
    with contextlib.redirect_stderr(stderr):
        handler.handle()
    return wfile.getvalue(), list(LOG), stderr.getvalue()


# ---- what "one well-formed response" means, per protocol -------------------

def check_gopherplus(out):
    """One status line: either +<n>/+-1/+-2 followed by data, or --<n>
    followed by the error text.  Nothing that looks like a second status."""
    lines = out.split(b"\r\n")
    if not re.match(rb"^(\+-?\d+|--\d+)$", lines[0]):
        return "no Gopher+ status line: %r" % lines[0]
    m = re.match(rb"^\+(\d+)$", lines[0])
    if m and len(out) - len(lines[0]) - 2 != int(m.group(1)):
        return "status %r announces %s bytes, %d follow: %r" % (
            lines[0], m.group(1).decode(), len(out) - len(lines[0]) - 2, out[:80])
    if lines[0].startswith(b"+") and any(re.match(rb"^--\d+$", x) for x in lines[1:]):
        return "success status %r followed by an error status: %r" % (lines[0], out[:80])
    return None


def check_http(out):
    head, sep, body = out.partition(b"\r\n\r\n")
    if not sep or not re.match(rb"^HTTP/1\.[01] \d\d\d ", head):
        return "no HTTP status line / header block: %r" % out[:60]
    if re.search(rb"(^|\n)HTTP/1\.[01] \d\d\d ", body):
        return "second HTTP status line inside the body of the first: %r" % out[:200]
    return None


def check_statusline(pattern_ok):
    def check(out):
        line, sep, body = out.partition(b"\r\n")
        if not sep or not re.match(rb"^\d+ ", line):
            return "no status line: %r" % out[:60]
        if re.match(pattern_ok, line) and not body:
            return "success status %r but no document follows" % line
        return None
    return check


HANDLERS = """[url.HTMLURLHandler, gophermap.BuckGophermapHandler,
    mbox.MaildirFolderHandler, mbox.MaildirMessageHandler,
    ZIP.ZIPHandler, UMN.UMNDirHandler, html.HTMLFileTitleHandler,
    mbox.MBoxMessageHandler, mbox.MBoxFolderHandler,
    file.CompressedFileHandler, file.FileHandler]"""

TEXT = b"These are the notes.\nSecond line.\n"


def main():
    import gzip
    import zipfile

    root = tempfile.mkdtemp(prefix="c03-3-")
    try:
        gz = gzip.compress(TEXT)
        with open(os.path.join(root, "notes.txt.gz"), "wb") as fp:
            fp.write(gz)
        with zipfile.ZipFile(os.path.join(root, "docs.zip"), "w") as z:
            z.writestr("notes.txt.gz", gz)
            z.writestr("readme.txt", "plain member\n")
        config = setup(root)
        config.set("handlers.HandlerMultiplexer", "handlers", HANDLERS)
        config.set("handlers.ZIP.ZIPHandler", "enabled", "true")
        config.set("handlers.file.CompressedFileHandler", "decompressors", "{'gzip': 'zcat'}")

        out, log, err = request(config, "/docs.zip\r\n")
        print("menu of the archive: %r" % out)
        out, log, err = request(config, "/notes.txt.gz\r\n")
        print("same file outside the archive, plain gopher: %r" % out)

        sel = "/docs.zip/notes.txt.gz"
        probes = [
            ("gopher", sel + "\r\n", False, lambda o: None if o else "no response"),
            ("gopher+", sel + "\t+\r\n", False, check_gopherplus),
            ("http", "GET %s HTTP/1.0\r\n\r\n" % sel, False, check_http),
            ("wap", "GET /wap%s HTTP/1.0\r\n\r\n" % sel, False, check_http),
            ("spartan", "localhost %s 0\r\n" % sel, False, check_statusline(rb"^2 ")),
            ("gemini", "gemini://localhost%s\r\n" % sel, True, check_statusline(rb"^2\d ")),
            ("https", "GET %s HTTP/1.0\r\n\r\n" % sel, True, check_http),
        ]
        failures = 0
        for name, req, tls, check in probes:
            out, log, err = request(config, req, tls)
            problems = []
            verdict = check(out)
            if verdict:
                problems.append(verdict)
            if "Traceback" in err:
                problems.append("unhandled internal error (traceback on stderr): "
                                + err.strip().splitlines()[-1])
            if name == "gopher" and out.startswith(b"3None\t"):
                # one syntactically valid error line: shown, but not counted
                print("note      [gopher] the error text is the word 'None': %r" % out)
            if problems:
                failures += 1
                print("VIOLATION [%s] %r" % (name, req))
                for p in problems:
                    print("    " + p)
            else:
                print("ok        [%s] %r -> %r" % (name, req, out[:60]))
        return 1 if failures else 0
    finally:
        shutil.rmtree(root, ignore_errors=True)


if __name__ == "__main__":
    sys.exit(main())
