#!/usr/bin/env python
"""
C01 hunt, finding 1: a mailbox selector inside a ZIP archive makes the server
open a path RELATIVE TO THE PROCESS WORKING DIRECTORY and reveal its content.

VFSZip.getfspath() returns the member path inside the archive ("inbox",
"var/mail/root", ...), i.e. a relative path.  The mbox handlers do not go
through the VFS to read the mailbox; they hand self.getfspath() to
mailbox.mbox(), which opens it on the real file system, relative to the cwd.
Their "real file system only" guard, isinstance(self.vfs, VFS_Real), is true
for VFSZip because VFSZip subclasses VFS_Real (and the message handler has no
guard at all).

The check below is the property itself: for a fixed document root, the bytes of
the response must not depend on what exists outside the root, and nothing
outside the root may be opened.  It would exit 0 if that held.
"""
import io
import os
import sys
import warnings

WT = os.path.dirname(os.path.dirname(os.path.dirname(os.path.abspath(__file__))))
sys.path.insert(0, WT)
os.chdir(WT)
warnings.simplefilter("ignore")

import shutil  # noqa: E402
import tempfile  # noqa: E402
import zipfile  # noqa: E402

import pygopherd.handlers.base as hbase  # noqa: E402
from pygopherd import initialization, logger, testutil  # noqa: E402
from pygopherd.handlers import HandlerMultiplexer  # noqa: E402

# ---------------------------------------------------------------- harness ---

WATCH = {"dir": None, "events": []}
FS_EVENTS = {
    "open", "os.listdir", "os.scandir", "os.mkdir", "os.remove", "os.rename",
    "os.rmdir", "os.chmod", "os.truncate", "os.utime", "os.link", "os.symlink",
}


def _audit(event, args):
    watched = WATCH["dir"]
    if watched is None or event not in FS_EVENTS or not args:
        return
    path = args[0]
    if isinstance(path, bytes):
        path = os.fsdecode(path)
    if not isinstance(path, str):
        return
    full = os.path.realpath(os.path.join(os.getcwd(), path))
    if full == watched or full.startswith(watched + os.sep):
        WATCH["events"].append("%s(%r)" % (event, path))


sys.addaudithook(_audit)


class KeepOpen(io.BytesIO):
    def close(self):
        pass


class FakeServer:
    server_name = "gopher.example"
    server_port = 70

    def __init__(self, config):
        self.config = config


def make_config(conffile, root, handlers=None):
    config = initialization.init_config(os.path.join(WT, "conf", conffile))
    config.set("pygopherd", "root", root)
    config.set("logger", "logmethod", "none")
    if handlers:
        config.set("handlers.HandlerMultiplexer", "handlers", handlers)
    config.set("handlers.ZIP.ZIPHandler", "enabled", "true")
    logger.init(config)
    cwd = os.getcwd()
    os.chdir(WT)  # the mimetypes option is "./conf/mime.types:..."
    initialization.init_mimetypes(config)
    os.chdir(cwd)
    return config


def request(config, line, outside):
    """One request through the real GopherRequestHandler.handle()."""
    HandlerMultiplexer.handlers = None
    HandlerMultiplexer.rootpath = None
    hbase.rootpath = None
    rfile, wfile = KeepOpen(line), KeepOpen()
    handler = testutil.MockRequestHandler(
        testutil.MockRequest(rfile, wfile), ("10.0.0.1", 7777), FakeServer(config)
    )
    WATCH["events"] = []
    WATCH["dir"] = os.path.realpath(outside)
    try:
        handler.handle()
    finally:
        WATCH["dir"] = None
    return wfile.getvalue(), list(WATCH["events"])


# --------------------------------------------------------------- scenario ---

MBOX = (
    b"From alice@example.org Mon Jan  1 00:00:00 2001\n"
    b"Subject: %s\n\n%s\n\n"
)

tmp = tempfile.mkdtemp(prefix="c01-hunt1-")
failures = []
try:
    root = os.path.join(tmp, "root")
    outside = os.path.join(tmp, "outside")  # the process working directory
    os.mkdir(root)
    os.mkdir(outside)
    # The document root: one ZIP archive holding a (public) mbox file.
    with zipfile.ZipFile(os.path.join(root, "a.zip"), "w") as z:
        z.writestr("inbox", MBOX % (b"public subject", b"public body"))
        z.writestr("readme.txt", "hello\n")

    def state_a():
        os.makedirs(os.path.join(outside, "spool"), exist_ok=True)
        for name in ("inbox", os.path.join("spool", "root")):
            with open(os.path.join(outside, name), "wb") as f:
                f.write(MBOX % (b"TOP-SECRET-SUBJECT", b"TOP-SECRET-BODY"))

    def state_b():
        for name in os.listdir(outside):
            path = os.path.join(outside, name)
            shutil.rmtree(path) if os.path.isdir(path) else os.remove(path)

    os.chdir(outside)

    cases = [
        # (what, config file, handler list override, request line)
        (
            "shipped full handler list (conf/local.conf), mbox menu inside ZIP",
            "local.conf",
            None,
            b"/a.zip/inbox\r\n",
        ),
        (
            "ZIP handler first (as tests/protocols/test_rfc1436.py injects it), "
            "message selector naming a member that is not even in the archive",
            "local.conf",
            "[ZIP.ZIPHandler, mbox.MBoxMessageHandler, mbox.MBoxFolderHandler, "
            "file.FileHandler]",
            b"/a.zip/spool/root|/MBOX-MESSAGE/1\r\n",
        ),
    ]
    for what, conffile, handlers, line in cases:
        config = make_config(conffile, root, handlers)
        state_a()
        resp_a, ev_a = request(config, line, outside)
        state_b()
        resp_b, ev_b = request(config, line, outside)
        print("== %s" % what)
        print("   request              : %r" % line)
        print("   outside has mailboxes: %r" % resp_a)
        print("   outside is empty     : %r" % resp_b)
        print("   outside paths touched: %s" % (ev_a + ev_b or "none"))
        if resp_a != resp_b:
            failures.append(
                "%s: response depends on a file outside the root" % what
            )
        if b"TOP-SECRET" in resp_a:
            failures.append(
                "%s: content of a mailbox in the cwd (outside the root) was sent to the client"
                % what
            )
        if ev_a or ev_b:
            failures.append(
                "%s: opened outside the root: %s" % (what, sorted(set(ev_a + ev_b)))
            )
finally:
    os.chdir(WT)
    shutil.rmtree(tmp, ignore_errors=True)

if failures:
    print("\nPROPERTY C01 VIOLATED:")
    for f in failures:
        print(" - " + f)
    sys.exit(1)
print("C01 held for these cases")
sys.exit(0)
