"""One integer decides everything: seed derivation and the recorded choice tape.

A run's *scenario* is generated from ``random.Random(run_seed)`` (see the
checks); everything that is decided while the run executes (who runs next,
when the next line-level pre-emption happens) is drawn through a ``Tape``.
The tape records every drawn integer.  In replay mode the integers are read
back from a list (exhausted => 0), so a replay is a pure function of the
replay file and the code under test and does not depend on the PRNG.
"""
import hashlib
import random

MASK = (1 << 64) - 1


def splitmix(x: int) -> int:
    x = (x + 0x9E3779B97F4A7C15) & MASK
    z = x
    z = ((z ^ (z >> 30)) * 0xBF58476D1CE4E5B9) & MASK
    z = ((z ^ (z >> 27)) * 0x94D049BB133111EB) & MASK
    return z ^ (z >> 31)


def derive_seed(base: int, label: str, index: int) -> int:
    """Per-run seed from (VERIF_SEED, property id / stream label, run index)."""
    h = hashlib.sha256(f"{base}|{label}|{index}".encode()).digest()
    return splitmix(int.from_bytes(h[:8], "big")) & ((1 << 53) - 1)


def stable_hash(*parts) -> int:
    h = hashlib.sha256(repr(parts).encode()).digest()
    return int.from_bytes(h[:8], "big")


class Tape:
    """Source of all run-time (schedule) decisions.

    choice(n): integer in [0, n).  Value 0 is always the "simplest" decision
    (callers order candidates so that 0 means "keep going / first").
    gap(p): number of pre-emptible lines until the next forced yield; 0 means
    "never again" (so an all-zero tape is the schedule with no pre-emption).
    """

    def __init__(self, seed=None, replay=None):
        self.replay = list(replay) if replay is not None else None
        self.pos = 0
        self.rec = []
        self.rng = random.Random(seed if seed is not None else 0)

    def _next(self, fresh):
        if self.replay is not None:
            v = self.replay[self.pos] if self.pos < len(self.replay) else 0
        else:
            v = fresh()
        self.pos += 1
        self.rec.append(v)
        return v

    def choice(self, n: int) -> int:
        if n <= 1:
            return 0
        v = self._next(lambda: self.rng.randrange(n))
        return v % n

    def chance(self, p: float) -> bool:
        if p <= 0.0:
            return False
        v = self._next(lambda: 1 if self.rng.random() < p else 0)
        return bool(v)

    def gap(self, p: float) -> int:
        if p <= 0.0:
            return 0
        if p >= 1.0:
            return self._next(lambda: 1) or 0

        def fresh():
            # geometric, >= 1
            import math

            u = self.rng.random()
            return int(math.log(1.0 - u) / math.log(1.0 - p)) + 1

        return self._next(fresh)
