#!/usr/bin/env python
"""C03 hunt #5: the answer to a directory request depends on which read-only
request was served before it, when the same directory is reachable under two
selectors (a symlinked directory: /current -> /docs).

DirHandler/UMNDirHandler keep the pickled *entries, selectors included* in
<dir>/.cache.pygopherd.dir.  The cache file is found through whichever
selector is requested, but its content was computed for whichever selector was
requested first.  So after somebody lists "/current", a request for "/docs"
is answered with a menu full of "/current/..." selectors (and vice versa) for
the next `cachetime` seconds.

Default handler list and protocol list.  The only option changed is
[handlers.dir.DirHandler] cachetime = 2 (default 180) so that the demo can let
the cache expire with a short real sleep instead of waiting three minutes; the
document tree is never touched after it is built.

  step 1   (no earlier request)                    "/docs"  -> R1
  ... cache expires ...
  step 2   earlier request: "/current", then        "/docs"  -> R2
  ... cache expires ...
  step 3   (nothing served since the expiry)        "/docs"  -> R3

The property demands R1 == R2 == R3 (Gopher menus carry no timestamps).
Exits 0 iff they are all equal.
"""
import os
import shutil
import socket
import sys
import tempfile
import threading
import time
import warnings

warnings.filterwarnings("ignore", category=SyntaxWarning)  # vendored simpletal

ROOT = os.path.dirname(os.path.dirname(os.path.dirname(os.path.abspath(__file__))))
sys.path.insert(0, ROOT)
os.chdir(ROOT)

from pygopherd import GopherExceptions, initialization, logger  # noqa: E402
from pygopherd.server import GopherRequestHandler, ThreadingTCPServer  # noqa: E402

CACHETIME = 2


def start(docroot):
    config = initialization.init_config("conf/pygopherd.conf")  # defaults
    config.set("pygopherd", "root", docroot)
    config.set("pygopherd", "timeout", "5")
    config.set("logger", "logmethod", "none")
    config.set("handlers.dir.DirHandler", "cachetime", str(CACHETIME))
    logger.init(config)
    log_lines = []
    logger.log = log_lines.append
    GopherExceptions.init(False)
    initialization.init_mimetypes(config)
    server = ThreadingTCPServer(config, ("127.0.0.1", 0), GopherRequestHandler)
    server.daemon_threads = True
    threading.Thread(target=server.serve_forever, daemon=True).start()
    return server, log_lines


def ask(server, data):
    with socket.create_connection(server.server_address[:2], timeout=10) as s:
        s.sendall(data)
        s.shutdown(socket.SHUT_WR)
        out = b""
        while True:
            chunk = s.recv(65536)
            if not chunk:
                return out
            out += chunk


def show(label, resp):
    print(label)
    for line in resp.decode(errors="replace").splitlines():
        print("      " + line.replace("\t", " <TAB> "))


def main():
    docroot = tempfile.mkdtemp(prefix="c03-hunt5-")
    try:
        os.mkdir(os.path.join(docroot, "docs"))
        for name in ("alpha.txt", "beta.txt"):
            with open(os.path.join(docroot, "docs", name), "w") as f:
                f.write(name + "\n")
        os.symlink("docs", os.path.join(docroot, "current"))  # /current -> /docs

        server, _ = start(docroot)
        expire = CACHETIME + 1.5  # st_mtime is compared in whole seconds

        r1 = ask(server, b"/docs\r\n")
        show("step 1: '/docs' with no earlier request", r1)

        time.sleep(expire)
        earlier = ask(server, b"/current\r\n")
        show("step 2a: earlier read-only request '/current'", earlier)
        r2 = ask(server, b"/docs\r\n")
        show("step 2b: '/docs' again", r2)

        time.sleep(expire)
        r3 = ask(server, b"/docs\r\n")
        show("step 3: '/docs' once the cache has expired, nothing served in between", r3)

        server.shutdown()
        server.server_close()
    finally:
        shutil.rmtree(docroot, ignore_errors=True)

    if r1 == r2 == r3:
        print("\nthe answer to '/docs' is independent of earlier requests")
        return 0
    print(
        "\nC03 violated: the answer to the request line '/docs' on an unchanged tree "
        "depends on whether '/current' was requested before it:\n"
        "  R1 == R3: %s,  R1 == R2: %s\n"
        "  R2 lists the selectors %r instead of %r"
        % (
            r1 == r3,
            r1 == r2,
            sorted({l.split(b"\t")[1].decode() for l in r2.splitlines() if l.count(b"\t") >= 3}),
            sorted({l.split(b"\t")[1].decode() for l in r1.splitlines() if l.count(b"\t") >= 3}),
        )
    )
    return 1


if __name__ == "__main__":
    sys.exit(main())
