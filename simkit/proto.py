"""Client-side protocol knowledge: request builders, response normalisation,
listing parsers and (for C03) independent syntactic validators."""
import re
import urllib.parse

# name -> (tls, family)
PROTOCOLS = {
    "gopher": (False, "gopher"),
    "gopher+": (False, "gopherp"),      # selector<TAB>+
    "gopher$": (False, "gopherp"),      # selector<TAB>$
    "gopher!": (False, "gopherp"),      # selector<TAB>!
    "http": (False, "http"),
    "head": (False, "http"),
    "wap": (False, "wap"),
    "wap-auto": (False, "wap"),         # detected through Accept + x-wap-profile headers
    "spartan": (False, "spartan"),
    "gemini": (True, "gemini"),
    "https": (True, "http"),
    "sgopher": (True, "gopher"),
    "sgopher+": (True, "gopherp"),
    "sgopher$": (True, "gopherp"),
}

LISTING_PROTOCOLS = ["gopher", "gopher+", "gopher$", "http", "wap", "spartan", "gemini",
                     "https", "sgopher", "sgopher$"]


def quote(sel):
    return urllib.parse.quote(sel.encode("utf-8", "surrogateescape"), safe="/")


def make_request(proto, selector, search=None):
    """Returns (request bytes, tls)."""
    tls, fam = PROTOCOLS[proto]
    selb = selector.encode("utf-8", "surrogateescape")
    if fam == "gopher":
        line = selb
        if search is not None:
            line += b"\t" + search.encode()
        return line + b"\r\n", tls
    if fam == "gopherp":
        flag = proto[-1].encode()
        line = selb
        if search is not None:
            line += b"\t" + search.encode()
        return line + b"\t" + flag + b"\r\n", tls
    if fam == "http":
        method = b"HEAD" if proto == "head" else b"GET"
        path = quote(selector or "/").encode()
        if search is not None:
            path += b"?searchrequest=" + urllib.parse.quote_plus(search).encode()
        return method + b" " + path + b" HTTP/1.0\r\nHost: sim.example.org\r\n\r\n", tls
    if proto == "wap-auto":
        path = quote(selector or "/").encode()
        if search is not None:
            path += b"?searchrequest=" + urllib.parse.quote_plus(search).encode()
        return (b"GET " + path + b" HTTP/1.0\r\nHost: sim.example.org\r\n"
                b"Accept: text/html, text/vnd.wap.wml\r\nX-Wap-Profile: \"http://wap.example.org/p.xml\"\r\n\r\n"), tls
    if fam == "wap":
        path = b"/wap" + quote(selector or "/").encode()
        if search is not None:
            path += b"?searchrequest=" + urllib.parse.quote_plus(search).encode()
        return b"GET " + path + b" HTTP/1.0\r\nHost: sim.example.org\r\n\r\n", tls
    if fam == "gemini":
        url = b"gemini://sim.example.org" + quote(selector or "/").encode()
        if search is not None:
            url += b"?" + urllib.parse.quote(search).encode()
        return url + b"\r\n", tls
    if fam == "spartan":
        body = (search or "").encode()
        return (b"sim.example.org " + quote(selector or "/").encode() + b" "
                + str(len(body)).encode() + b"\r\n" + body), tls
    raise ValueError(proto)


_LASTMOD = re.compile(rb"^Last-Modified: [^\r\n]*\r\n", re.M)


def normalize(proto, data, dir_only=True):
    """Remove directory timestamps from a response (the property statements
    exempt them): HTTP Last-Modified of the listing itself, and Mod-Date of
    type-1 items in Gopher+ attribute listings."""
    tls, fam = PROTOCOLS[proto]
    if fam in ("http", "wap"):
        head, sep, body = data.partition(b"\r\n\r\n")
        if b"text/html" in head or b"vnd.wap.wml" in head:
            head = _LASTMOD.sub(b"Last-Modified: <T>\r\n", head)
        return head + sep + body
    if fam == "gopherp" and proto[-1] in "$!":
        out = []
        cur_type = None
        for line in data.split(b"\r\n"):
            if line.startswith(b"+INFO: "):
                cur_type = line[7:8]
            if line.startswith(b" Mod-Date: ") and (cur_type == b"1" or not dir_only):
                line = b" Mod-Date: <T>"
            out.append(line)
        return b"\r\n".join(out)
    return data


class Entry(tuple):
    """(kind, name, target) of one listing entry; kind is 'link' or 'info'."""


def parse_listing(proto, data):
    """Parse a successful directory listing into a list of (kind, name, target).
    Returns None if the response is not a successful listing."""
    tls, fam = PROTOCOLS[proto]
    out = []
    if fam == "gopher" or (fam == "gopherp" and proto[-1] == "+"):
        body = data
        if fam == "gopherp":
            if not body.startswith(b"+"):
                return None
            first, _, body = body.partition(b"\r\n")
        for line in body.split(b"\r\n"):
            if not line:
                continue
            parts = line.split(b"\t")
            if len(parts) < 4:
                return None
            t = parts[0][:1]
            name = parts[0][1:]
            if t == b"3" and parts[2] == b"error.host":
                return None
            if t == b"i":
                out.append(("info", name, b""))
            else:
                out.append(("link", name, parts[1]))
        return out
    if fam == "gopherp":
        if not data.startswith(b"+-2\r\n"):
            return None
        for line in data.split(b"\r\n"):
            if line.startswith(b"+INFO: "):
                parts = line[7:].split(b"\t")
                if len(parts) < 4:
                    return None
                t = parts[0][:1]
                if t == b"i":
                    out.append(("info", parts[0][1:], b""))
                else:
                    out.append(("link", parts[0][1:], parts[1]))
        return out
    if fam == "http":
        head, sep, body = data.partition(b"\r\n\r\n")
        if not head.startswith(b"HTTP/1.0 200") or b"text/html" not in head:
            return None
        for row in re.findall(rb"<TR><TD>.*?</TR>", body, re.S):
            m = re.search(rb'<A HREF="([^"]*)"><TT>(.*?)</TT></A>', row, re.S)
            if m:
                out.append(("link", m.group(2), urllib.parse.unquote_to_bytes(m.group(1))))
                continue
            m = re.search(rb'<TT>(.*?)</TT><BR><FORM METHOD="GET" ACTION="([^"]*)">', row, re.S)
            if m:
                out.append(("link", m.group(1), urllib.parse.unquote_to_bytes(m.group(2))))
                continue
            m = re.search(rb"<TT>(.*?)</TT>", row, re.S)
            if m:
                out.append(("info", m.group(1), b""))
        return out
    if fam == "wap":
        head, sep, body = data.partition(b"\r\n\r\n")
        if b"title=\"404 Error\"" in body or not head.startswith(b"HTTP/1.0 200"):
            return None
        if b"vnd.wap.wml" not in head:
            return None
        m = re.search(rb"<b>.*?</b><br/>\n(.*)</p>\n</card>", body, re.S)
        if not m:
            return None
        for line in m.group(1).split(b"<br/>\n"):
            if not line:
                continue
            mm = re.search(rb'<a (?:accesskey="[^"]*" )?href="([^"]*)">(.*?)</a>', line, re.S)
            if mm:
                t = urllib.parse.unquote_to_bytes(mm.group(1))
                if t.startswith(b"/wap"):
                    t = t[4:]
                out.append(("link", mm.group(2), t))
            elif b"<input name=" in line or b"<anchor>" in line or b"</anchor>" in line:
                continue
            else:
                out.append(("info", line, b""))
        return out
    if fam in ("gemini", "spartan"):
        first, _, body = data.partition(b"\r\n")
        ok = (first.startswith(b"20 ") if fam == "gemini" else first.startswith(b"2 "))
        if not ok or b"text/gemini" not in first:
            return None
        lines = body.split(b"\n")
        # strip the configured footer ("\n<text>\n")
        while lines and lines[-1] == b"":
            lines.pop()
        if lines and lines[-1].startswith(b"=> https://www.github.com/michael-lazar/pygopherd"):
            lines.pop()
            if lines and lines[-1] == b"":
                lines.pop()
        for line in lines:
            if line.startswith(b"=> ") or line.startswith(b"=: "):
                rest = line[3:]
                url, _, name = rest.partition(b" ")
                out.append(("link", name, urllib.parse.unquote_to_bytes(url)))
            else:
                out.append(("info", line, b""))
        return out
    raise ValueError(proto)


def is_success(proto, data):
    tls, fam = PROTOCOLS[proto]
    if fam == "gopher":
        if data.startswith(b"3") and b"\terror.host\t1\r\n" in data.split(b"\r\n", 1)[0] + b"\r\n":
            return False
        return len(data) > 0
    if fam == "gopherp":
        return data.startswith(b"+")
    if fam == "http":
        return data.startswith(b"HTTP/1.0 200")
    if fam == "wap":
        return data.startswith(b"HTTP/1.0 200") and b'title="404 Error"' not in data
    if fam == "gemini":
        return data.startswith(b"20 ")
    if fam == "spartan":
        return data.startswith(b"2 ")
    raise ValueError(proto)


def is_not_found(proto, data):
    """The protocol's own not-found reply."""
    tls, fam = PROTOCOLS[proto]
    if fam == "gopher":
        line = data.split(b"\r\n", 1)[0]
        return data.startswith(b"3") and line.endswith(b"\t\terror.host\t1")
    if fam == "gopherp":
        return data.startswith(b"--2\r\n")
    if fam == "http":
        return data.startswith(b"HTTP/1.0 404 ")
    if fam == "wap":
        return b'title="404 Error"' in data
    if fam == "gemini":
        return data.startswith(b"51 ")
    if fam == "spartan":
        return data.startswith(b"4 ")
    raise ValueError(proto)


# ---------------------------------------------------------------- validators
FAMILY_OF_CLASS = {
    "GopherProtocol": "gopher", "SecureGopherProtocol": "gopher",
    "GopherPlusProtocol": "gopherp", "SecureGopherPlusProtocol": "gopherp", "URLGopherPlus": "gopherp",
    "HTTPProtocol": "http", "HTTPSProtocol": "http", "WAPProtocol": "http",
    "GeminiProtocol": "gemini", "SpartanProtocol": "spartan",
}

# a bare CR cannot end a line (lines end with CRLF and request lines are read up to LF), so only
# TAB and LF are structural inside a field
_MENU_LINE = re.compile(rb"^[^\t\n][^\t\n]*\t[^\t\n]*\t[^\t\n]+\t\d+(\t\+)?$")
_GP_FIRST = re.compile(rb"^[+-](-1|-2|\d+)\r\n")
_HTTP_STATUS = re.compile(rb"^HTTP/1\.[01] \d{3} [^\r\n]*\r\n")
_HTTP_HEADER = re.compile(rb"^[!#$%&'*+.^_`|~0-9A-Za-z-]+:[ \t]*[^\r\n]*$")
_GEMINI_HEAD = re.compile(rb"^(\d\d) ([^\r\n]*)\r\n")
_SPARTAN_HEAD = re.compile(rb"^(\d) ([^\r\n]*)\r\n")


def validate(cls, request, resp):
    """Independent syntactic validity check of a complete response for the
    protocol class that answered.  Returns None when valid, else a short reason."""
    fam = FAMILY_OF_CLASS.get(cls)
    if fam is None:
        return "unknown protocol class %r" % cls
    if fam == "gopher":
        # menu, error line or raw document: only an error line has a checkable shape
        if resp.startswith(b"3") and b"\terror.host\t" in resp.split(b"\r\n", 1)[0]:
            line = resp.split(b"\r\n", 1)[0]
            if not _MENU_LINE.match(line) and not re.match(rb"^3[^\t\n]*\t\terror\.host\t1$", line):
                return "malformed gopher error line"
            if not resp.endswith(b"\r\n"):
                return "gopher error line not terminated"
        return None
    if fam == "gopherp":
        m = _GP_FIRST.match(resp)
        if not m:
            return "no Gopher+ status line"
        rest = resp[m.end():]
        if resp.startswith(b"-"):
            if not re.match(rb"^\d+ [^\r\n]*\r\n", rest):
                return "Gopher+ error block without '<code> <admin>' line"
            return None
        n = m.group(1)
        if n not in (b"-1", b"-2"):
            if len(rest) != int(n):
                return "Gopher+ length %d but %d body bytes follow" % (int(n), len(rest))
        return None
    if fam == "http":
        m = _HTTP_STATUS.match(resp)
        if not m:
            return "no HTTP status line"
        head, sep, body = resp.partition(b"\r\n\r\n")
        if not sep:
            return "HTTP header block not terminated by a blank line"
        for h in head.split(b"\r\n")[1:]:
            if not _HTTP_HEADER.match(h):
                return "malformed HTTP header line %r" % h[:60]
        if request.startswith(b"HEAD ") and body:
            return "HEAD response carries a body"
        for h in head.split(b"\r\n")[1:]:
            if h.lower().startswith(b"content-length:") and not request.startswith(b"HEAD "):
                v = h.split(b":", 1)[1].strip()
                if not v.isdigit() or int(v) != len(body):
                    return "Content-Length announces %s but %d body bytes follow" % (v.decode("latin-1"), len(body))
        m2 = _HTTP_STATUS.match(body)
        if m2 and b"\r\n\r\n" in body and all(_HTTP_HEADER.match(h) for h in
                                              body.partition(b"\r\n\r\n")[0].split(b"\r\n")[1:]):
            return "two HTTP responses: a second status line and header block follow the first"
        return None
    if fam in ("gemini", "spartan"):
        m = (_GEMINI_HEAD if fam == "gemini" else _SPARTAN_HEAD).match(resp)
        if not m:
            return "no %s status line" % fam
        code = m.group(1)
        body = resp[m.end():]
        if not code.startswith(b"2") and body:
            return "%s status %s is followed by a body (%r)" % (fam, code.decode(), body[:40])
        return None
    return None


def is_error_reply(cls, resp):
    fam = FAMILY_OF_CLASS.get(cls)
    if fam == "gopher":
        return resp.startswith(b"3") and b"\terror.host\t" in resp.split(b"\r\n", 1)[0]
    if fam == "gopherp":
        return resp.startswith(b"--")
    if fam == "http":
        return resp.startswith(b"HTTP/1.0 404") or b'title="404 Error"' in resp
    if fam == "gemini":
        return bool(re.match(rb"^[1345]\d ", resp))
    if fam == "spartan":
        return bool(re.match(rb"^[345] ", resp))
    return False
