#!/venv/bin/python
"""C14 demo 3: a read fault that hits ONE client's worker while it reads a
UMN link file (.Links) or an extended-attribute sidecar (.abstract) is
swallowed (UMNDirHandler.prep_initfiles_canaddfile: "except OSError: pass",
GopherEntry.handleeaext: "except IOError: pass"), the degraded menu is saved
in the shared directory cache, and every other client - whose own worker meets
no fault - is served the degraded menu.

This is a different code path from demo 1 (no entry is dropped by
DirHandler.prep_entries here): the link entries / the abstract are silently
missing and the result is cached all the same.

Threading server; clients A and B are connected at the same time.
  /links  contains a.txt and a .Links file that adds a link to another server
  /abs    contains a.txt and a.txt.abstract
A one-shot EMFILE is injected into the first open() of /links/.Links and of
/abs/a.txt.abstract (both happen in the worker of client A).
Exit status 0 only if B receives, for both menus, exactly what a lone client
receives.
"""
import builtins
import errno
import os
import shutil
import socket
import sys
import tempfile
import threading
import warnings

ROOT = os.path.dirname(os.path.dirname(os.path.dirname(os.path.abspath(__file__))))
sys.path.insert(0, ROOT)
os.chdir(ROOT)
warnings.simplefilter("ignore")

from pygopherd import GopherExceptions, initialization, logger  # noqa: E402


def build_tree() -> str:
    root = tempfile.mkdtemp(prefix="c14-demo3-")
    files = {
        "links/a.txt": "file a\n",
        "links/.Links": "Name=Floodgap\nType=1\nPath=/\nHost=gopher.floodgap.com\nPort=70\n",
        "abs/a.txt": "file a\n",
        "abs/a.txt.abstract": "This is the abstract of a.txt\n",
    }
    for name, text in files.items():
        path = os.path.join(root, name)
        os.makedirs(os.path.dirname(path), exist_ok=True)
        with open(path, "w") as fp:
            fp.write(text)
    return root


def start_server(root):
    config = initialization.init_config("conf/pygopherd.conf")
    config.set("pygopherd", "root", root)
    config.set("pygopherd", "servertype", "ThreadingTCPServer")
    config.set("pygopherd", "interface", "127.0.0.1")
    config.set("pygopherd", "servername", "localhost")
    config.set("pygopherd", "port", "0")
    config.set("logger", "logmethod", "none")
    logger.init(config)
    GopherExceptions.init(False)
    initialization.init_mimetypes(config)
    server = initialization.get_server(config)
    threading.Thread(target=server.serve_forever, args=(0.05,), daemon=True).start()
    return server


def connect(port):
    return socket.create_connection(("127.0.0.1", port), timeout=20)


def finish(sock, request: bytes) -> bytes:
    sock.sendall(request)
    data = b""
    while True:
        chunk = sock.recv(65536)
        if not chunk:
            break
        data += chunk
    sock.close()
    return data


def main() -> int:
    root = build_tree()
    server = start_server(root)
    port = server.server_address[1]
    cases = {
        b"/links\r\n": b"/links/.Links",
        b"/abs\r\n": b"/abs/a.txt.abstract",
    }
    try:
        alone = {}
        for request in cases:
            alone[request] = finish(connect(port), request)
        # the same content as before those requests
        for sub in ("links", "abs"):
            os.unlink(os.path.join(root, sub, ".cache.pygopherd.dir"))

        real_open = builtins.open
        armed = set(cases.values())
        hits = []
        lock = threading.Lock()

        def faulty_open(file, *args, **kwargs):
            name = os.fsencode(file) if isinstance(file, (str, bytes)) else b""
            with lock:
                for suffix in list(armed):
                    if name.endswith(suffix):
                        armed.discard(suffix)
                        hits.append(suffix.decode())
                        raise OSError(errno.EMFILE, os.strerror(errno.EMFILE), file)
            return real_open(file, *args, **kwargs)

        bad = 0
        builtins.open = faulty_open
        try:
            for request in cases:
                # A and B are both connected, each with a worker of its own,
                # before either is answered.
                sock_a = connect(port)
                sock_b = connect(port)
                resp_a = finish(sock_a, request)   # this worker meets the fault
                resp_b = finish(sock_b, request)   # this worker meets no fault
                print("=== request %r" % request)
                print("a lone client receives:\n" + alone[request].decode())
                print("client A (its worker was hit by EMFILE) received:\n" + resp_a.decode())
                if resp_b != alone[request]:
                    bad += 1
                    print("VIOLATION: client B (no fault in its worker) received:\n"
                          + resp_b.decode())
                else:
                    print("client B received the same as a lone client\n")
        finally:
            builtins.open = real_open
        print("faults injected:", hits)
        if bad:
            print("%d of %d menus: the fault of one client's worker was cached and "
                  "served to another client" % (bad, len(cases)))
            return 1
        print("OK")
        return 0
    finally:
        server.shutdown()
        server.server_close()
        shutil.rmtree(root, ignore_errors=True)


if __name__ == "__main__":
    sys.exit(main())
